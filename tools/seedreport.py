#!/usr/bin/env python3
"""Builds seeded/RESULTS.md (catch matrix) from seeded/*/meta.json and seeded/*/result.txt, and writes the
detection result back into meta.json."""
import glob, json, os, re
ROOT = os.path.dirname(os.path.dirname(os.path.abspath(__file__)))
rows = []
for d in sorted(glob.glob(os.path.join(ROOT, "seeded", "*", ""))):
    mp = os.path.join(d, "meta.json")
    if not os.path.exists(mp):
        continue
    meta = json.load(open(mp))
    res = open(os.path.join(d, "result.txt")).read() if os.path.exists(os.path.join(d, "result.txt")) else ""
    checks = re.findall(r"CHECK (C\d+) rc=(\d+)\s*(.*)", res)
    caught = [c for c, rc, _ in checks if rc == "1"]
    silent = [c for c, rc, _ in checks if rc == "0"]
    other = [f"{c}:rc={rc}" for c, rc, _ in checks if rc not in ("0", "1")]
    first = next((t.strip()[:110] for c, rc, t in checks if rc == "1" and t.strip()), "")
    meta["final_matrix"] = {"alarm": caught, "silent": silent, "other": other, "first_signature": first}
    json.dump(meta, open(mp, "w"), indent=1)
    need = (meta.get("needs_to_manifest") or "").split("\n")[0][:150]
    rows.append((meta["id"], meta["breaks_property"], ", ".join(caught) or "-", ", ".join(silent) or "-", "yes" if meta.get("first_pass_missed") else "no", need))
with open(os.path.join(ROOT, "seeded", "RESULTS.md"), "w") as f:
    f.write("# Seeded changes: catch matrix\n\nEvery change passes the repository's 325 tests; its demo fails with the change and passes without it "
            "(confirmed by `tools/seedtest.sh` in a scratch worktree). Columns: checks run against it (quick tier) that raise an alarm / stay silent; "
            "whether the first version of the target check missed it (see meta.json `strengthening`).\n\n")
    f.write("| id | breaks | alarm | silent | first pass missed | change (first line of the author's note) |\n|---|---|---|---|---|---|\n")
    for r in rows:
        f.write("| " + " | ".join(r) + " |\n")
    tgt = sum(1 for r in rows if r[1] in r[2].split(", "))
    f.write(f"\n{tgt} of {len(rows)} seeded changes are reported by the check of the property they were written to break.\n")
print(len(rows), "rows")
