#!/usr/bin/env python3
"""Builds seeded/RESULTS.md (catch matrix) from seeded/*/meta.json and seeded/*/result.txt, and writes the
detection result back into meta.json."""
import glob, json, os, re
ROOT = os.path.dirname(os.path.dirname(os.path.abspath(__file__)))
rows = []
for d in sorted(glob.glob(os.path.join(ROOT, "seeded", "*", ""))):
    mp = os.path.join(d, "meta.json")
    if not os.path.exists(mp):
        continue
    meta = json.load(open(mp))
    res = open(os.path.join(d, "result.txt")).read() if os.path.exists(os.path.join(d, "result.txt")) else ""
    checks = re.findall(r"CHECK (C\d+) rc=(\d+)[ \t]*(.*)", res)
    caught = [c for c, rc, _ in checks if rc == "1"]
    silent = [c for c, rc, _ in checks if rc == "0"]
    other = [f"{c}:rc={rc}" for c, rc, _ in checks if rc not in ("0", "1")]
    first = next((t.strip()[:110] for c, rc, t in checks if rc == "1" and t.strip()), "")
    rm = re.search(r"demo_clean_rc=(\d+) demo_mutant_rc=(\d+) tests: (.*?)(?: applied_on=(\S+))?$", res, re.M)
    neutral = bool(rm) and rm.group(2) == "0"
    if rm:
        meta.setdefault("confirmed", {}).update({"demo_clean_rc": int(rm.group(1)), "demo_with_change_rc": int(rm.group(2)),
                                                 "test_suite_with_change": rm.group(3).strip(), "applied_on": rm.group(4) or "HEAD"})
    meta["neutralised_on_current_tree"] = neutral
    meta["final_matrix"] = {"alarm": caught, "silent": silent, "other": other, "first_signature": first}
    json.dump(meta, open(mp, "w"), indent=1)
    need = (meta.get("needs_to_manifest") or "").split("\n")[0][:150]
    fp = meta.get("first_pass_missed")
    strg = meta.get("strengthening") or ""
    fpm = "yes" if fp else ("pre-empted" if strg.startswith("pre-emptively") else ("out of scope" if strg.startswith("NOT caught") else "no"))
    if neutral:
        caught_s = "(change no longer breaks the property after a later fix: in /repo: demo passes, checks silent)"
    else:
        caught_s = ", ".join(caught) or "-"
    rows.append((meta["id"], meta["breaks_property"], caught_s, ", ".join(silent) or "-", fpm, need))
with open(os.path.join(ROOT, "seeded", "RESULTS.md"), "w") as f:
    f.write("# Seeded changes: catch matrix\n\nEvery change passes the repository's 325 tests; its demo fails with the change and passes without it "
            "(confirmed by `tools/seedtest.sh` in a scratch worktree). Columns: checks run against it (quick tier) that raise an alarm / stay silent; "
            "whether the first version of the target check missed it (see meta.json `strengthening`).\n\n")
    f.write("| id | breaks | alarm | silent | first pass missed | change (first line of the author's note) |\n|---|---|---|---|---|---|\n")
    for r in rows:
        f.write("| " + " | ".join(r) + " |\n")
    live = [r for r in rows if not r[2].startswith("(change no longer")]
    tgt = sum(1 for r in live if r[1] in r[2].split(", "))
    anyc = sum(1 for r in live if r[2] != "-")
    f.write(f"\n{len(rows)} seeded changes; {len(rows) - len(live)} were neutralised by later fix: commits (they emulate a defect whose root cause has since been repaired).\n"
            f"Of the remaining {len(live)}: {tgt} are reported by the check of the property they were written to break, {anyc} by at least one check; "
            f"not reported by any check: {', '.join(r[0] + (' [' + r[4] + ']') for r in live if r[2] == '-' and r[3] != '-') or 'none'}; "
            f"not evaluated yet: {', '.join(r[0] for r in live if r[2] == '-' and r[3] == '-') or 'none'}.\n")
print(len(rows), "rows")
