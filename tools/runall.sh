#!/bin/bash
# runs every quick (or $1) check, prints a summary line each
cd "$(dirname "$0")/.."
tier=${1:-quick}
for p in ${RUNALL_PROPS:-C01 C02 C03 C04 C05 C06 C07 C08 C09 C10 C11 C12 C13 C14 C15 C16 C17 C18 C19 C20}; do
  s=$(date +%s); out=$(./run $p --tier $tier 2>&1); rc=$?; e=$(date +%s)
  echo "$p rc=$rc $((e-s))s $(echo "$out" | grep -c '^VIOLATION') violations, $(echo "$out" | grep -c '^KNOWN-FINDING') known | $(echo "$out" | grep '^\[' | head -1)"
  echo "$out" | grep -E "violation:|HARNESS" | head -5
done
