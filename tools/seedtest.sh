#!/bin/bash
# tools/seedtest.sh <dir with patch.diff and demo.py> [Cxx ...]
# Confirms a seeded change in a scratch worktree (never /repo): demo passes clean, patch applies, suite passes,
# demo fails with the patch; then runs the given checks (default: all) against the patched worktree.
set -u
D=$(readlink -f "$1"); shift
WT=${SEEDWT:-/tmp/seedwt}
HEAD=$(git -C /repo rev-parse HEAD)
if [ ! -d "$WT" ]; then git -C /repo worktree add --detach "$WT" "$HEAD" >/dev/null 2>&1; fi
git -C "$WT" checkout -q --detach "$HEAD" && git -C "$WT" checkout -q -- . && git -C "$WT" clean -qfd
cp "$D/demo.py" "$WT/_demo.py"
( cd "$WT" && timeout 300 /venv/bin/python _demo.py >/dev/null 2>&1 ); clean_rc=$?
APPLIED_ON=HEAD
if ! git -C "$WT" apply "$D/patch.diff" 2>/dev/null; then
  if git -C "$WT" apply --3way "$D/patch.diff" >/dev/null 2>&1; then APPLIED_ON="HEAD(3way)"; git -C "$WT" reset -q; else
    # the patch was written against an older /repo commit and conflicts with a later fix: evaluate it on its own base commit
    BASE=$(python3 -c "import json,sys; print(json.load(open(sys.argv[1])).get('base_commit',''))" "$D/meta.json" 2>/dev/null)
    git -C "$WT" reset -q --hard; git -C "$WT" checkout -q -- .
    [ -n "$BASE" ] && git -C "$WT" checkout -q --detach "$BASE" && git -C "$WT" apply "$D/patch.diff" || { echo "RESULT patch does not apply"; exit 3; }
    APPLIED_ON="base:$BASE"; cp "$D/demo.py" "$WT/_demo.py"
  fi
fi
tests=$( cd "$WT" && /venv/bin/python -m pytest -q -p no:cacheprovider 2>&1 | tail -1 )
( cd "$WT" && timeout 300 /venv/bin/python _demo.py >/dev/null 2>&1 ); mut_rc=$?
echo "RESULT demo_clean_rc=$clean_rc demo_mutant_rc=$mut_rc tests: $tests applied_on=$APPLIED_ON"
props=${@:-C01 C02 C03 C04 C05 C06 C07 C08 C09 C10 C11 C12 C13 C14 C15 C16 C17 C18 C19 C20}
cd "$(dirname "$0")/.."
for p in $props; do
  out=$(VERIF_STOP_ON_FIRST=${SEEDSTOP:-1} VERIF_REPO=$WT VERIF_EVIDENCE_DIR=/tmp/seed_evidence VERIF_REPLAY_DIR=/tmp/seed_replays ./run $p --tier ${SEEDTIER:-quick} 2>&1); rc=$?
  echo "CHECK $p rc=$rc $(echo "$out" | grep -m3 'violation:' | tr '\n' ';')"
done
rm -f "$WT/_demo.py"; git -C "$WT" reset -q --hard; git -C "$WT" checkout -q -- . ; git -C "$WT" clean -qfd
