#!/bin/bash
# Re-evaluates every kept seeded change against its target check (and related ones); writes seeded/<id>/result.txt
cd "$(dirname "$0")/.."
declare -A REL=( [C01]="C01 C02 C03" [C02]="C02 C01 C03" [C03]="C03 C12 C08" [C04]="C04 C10 C01" [C05]="C05 C10" [C06]="C06 C10 C19" [C07]="C07" [C08]="C08 C11" [C09]="C09 C01 C16" [C10]="C10 C14 C15" [C11]="C11 C08 C14 C17" [C12]="C12 C03" [C13]="C13 C14" [C14]="C14 C13" [C15]="C15" [C16]="C16 C17" [C17]="C17 C16" [C18]="C18 C03" [C19]="C19 C14" [C20]="C20" )
for d in ${@:-seeded/*/}; do
  id=$(basename $d); p=$(echo $id | grep -o "C[0-9][0-9]" | head -1)
  checks=${REL[$p]:-$p}; [ -n "${SEEDMATRIX_TARGET_ONLY:-}" ] && checks=$p   # target check only (related checks on a second pass for the misses)
  tools/seedtest.sh $d $checks 2>&1 | grep -E "RESULT|CHECK" | cut -c1-300 > $d/result.txt.new && mv $d/result.txt.new $d/result.txt
  echo "$id: $(grep -c 'rc=1' $d/result.txt) checks alarm | $(grep CHECK $d/result.txt | awk '{print $2":"$3}' | tr '\n' ' ')"
done
