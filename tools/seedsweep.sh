#!/bin/bash
# runs every quick check for several VERIF_SEED values against /repo (evidence to a scratch dir); prints only problems
cd "$(dirname "$0")/.."
for s in ${@:-2 3 5 13}; do
  for p in ${SWEEP_PROPS:-C01 C02 C03 C04 C05 C06 C07 C08 C09 C10 C11 C12 C13 C14 C15 C16 C17 C18 C19 C20}; do
    out=$(VERIF_SEED=$s VERIF_EVIDENCE_DIR=/tmp/sweep_evidence VERIF_REPLAY_DIR=/tmp/sweep_replays ./run $p --tier quick 2>&1); rc=$?
    echo "seed=$s $p rc=$rc $(echo "$out" | grep -E 'violation:|HARNESS' | head -3 | tr '\n' ';') $(echo "$out" | grep -o 'wall=[0-9.]*s')"
  done
done
