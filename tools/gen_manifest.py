#!/usr/bin/env python3
"""Regenerates /verif/MANIFEST.json from the table below (kept in one place so it stays consistent)."""
import json, os
ROOT = os.path.dirname(os.path.dirname(os.path.abspath(__file__)))

E1 = "E1 stream x schedule explorer (hxmc/props)"
CHECKS = {
 "C01": ("E1", "bounded exhaustive enumeration of streams x append schedules on the real Indicator; differential oracle batch vs schedule, plus step-confluence on full state",
         "No word over the candle alphabet of length <= n, cut into appends in every possible way (all compositions, preloads with/without calculate, restart by a second instance over already calculated candles), makes any shipped indicator config differ from its batch result; a plumbing dimension enumerates every gap word (same bucket / next / skip / far, sub-second parts) x every composition; chained indicators and Hexital member sets with differing fill flags in both listing orders; deeper lengths by step confluence on the full state.",
         "alphabet of 4-6 candle shapes, periods 2-6, timeframes none/T2(+fill) (thorough: S30,H1,D1,HA); bit-exact float comparison of two runs of the same code", "6 C01"),
 "C02": ("E1", "bounded exhaustive enumeration of append histories with a snapshot after every append; prefix oracle on closed candles, batch-over-every-prefix oracle",
         "For every enumerated stream and schedule, every snapshot minus the open bucket is a prefix of every later snapshot, and batch over every prefix is a prefix of batch over the whole stream (no look-ahead).",
         "same space as C01", "6 C02"),
 "C03": ("E1", "bounded exhaustive enumeration of gap words x first offsets x timeframes x hosts x append compositions x repeated collapse passes against a reference resampler",
         "Every timestamp pattern over the 9-class gap alphabet up to the bound, through four hosts and every append composition, collapses to exactly the reference right-closed right-labelled buckets.",
         "TZ=UTC; second-resolution naive timestamps; reference model in hxmc/ref/cm.py", "6 C03"),
 "C04": ("E1", "bounded exhaustive enumeration of streams x input placements; interval-arithmetic reference model + exact position-independence differential",
         "Every reading of SMA/EMA/RMA/WMA/VWMA/HMA over every enumerated stream lies inside the interval the definition and the configured rounding allow, first reading exactly at the first full window, results independent of where the input starts.",
         "interval reference (hxmc/ref/ind.py) widened by half a rounding unit per stored series; undefined quotients skipped and counted", "6 C04"),
 "C05": ("E1", "bounded exhaustive enumeration of streams; interval-arithmetic reference model per indicator",
         "TR/ATR/STDEV/BBANDS/KC/Donchian/HL/HLA/Supertrend/STDEVTHRES/Counter equal their definitions within rounding on every enumerated stream, warm-up index as documented.",
         "sigma warm-up convention admitted at first full window or one candle later but must be one convention everywhere", "6 C05"),
 "C06": ("E1", "bounded exhaustive enumeration of streams; interval-arithmetic reference model per indicator",
         "RSI/MACD/ROC/STOCH/TSI/AROON/ADX/OBV/VWAP equal their definitions within rounding on every enumerated stream.",
         "undefined quotients (zero ranges/denominators) are skipped by the reference and constrained by C09/C10 instead", "6 C06"),
 "C08": ("E1", "bounded exhaustive enumeration of member sets x forms x Hexital settings x streams x supply schedules; differential oracle against a standalone twin",
         "Every enumerated Hexital member (object, dict, settings form; singletons of every class, pairs, triples; timeframe spellings; history at construction, appended, or both; every gap word under fill for nested member timeframes) has exactly the candles and readings of a standalone twin with the effective configuration read off the member.",
         "member timeframes are multiples of the Hexital timeframe; one known finding (lifespan + member timeframe) characterised differentially", "6 C08"),
 "C09": ("E1", "bounded exhaustive enumeration of degenerate stream families; invariant oracle on every stored value",
         "No enumerated stream (flat, zero-volume, monotone, long identical runs, fill candles) makes append/calculate raise, store a non-finite value, or leave a gap after the first value of an output field.",
         "prices on the stated grids; periods 2-6; hosts base/T2/T2+fill/Heikin-Ashi; readers fed by another indicator inside a Hexital; one known finding (reader fed by a series with interior gaps raises TypeError) classified per case", "6 C09"),
 "C10": ("E1", "bounded exhaustive enumeration of streams; invariant oracle (ranges, band order, field identities, rounding) on every reading",
         "Every reading of every final state in the enumerated space satisfies the structural relations of the statement within explicit rounding slack.",
         "slack 2 units of the coarser of round_value and the 4-decimal helper rounding; incremental window updates get one unit per candle", "6 C10"),
 "C11": ("E1", "bounded exhaustive enumeration of streams x preloads x append compositions x hosts; reference Heikin-Ashi recurrence over the reference collapse",
         "For every enumerated stream and schedule (including starts from 0 or 1 candle) the candles indicators see are the reference HA candles, raw values recoverable, tags present, EMA computed on converted closes.",
         "1e-9 relative tolerance on HA arithmetic; alphabet includes a relative letter (flat zero-volume candle at the ohlc/4 of its predecessor)", "6 C11"),
 "C12": ("E1", "bounded exhaustive enumeration of gap words x hosts x append compositions with fill on; reference fill model",
         "Every enumerated gap pattern fills to a contiguous series of flat zero-volume candles, real buckets unchanged, identical for every schedule.",
         "TZ=UTC", "6 C12"),
 "C18": ("E4", "exhaustive enumeration of zones x timeframes x DST base dates x gap words, one child process per zone; differential oracle against the UTC child and the reference",
         "For every listed zone (half-hour, 45-minute, DST) and every enumerated stream the collapsed candles are identical to the UTC run.",
         "tzdata of the image; listed zones and dates only; a zone child stops after 9 measured horizon hits (run then marked non-exhaustive)", "6 C18"),
 "C13": ("E2", "explicit-state BFS over operation sequences on a Hexital holding pairs/triples; differential oracle against a Hexital holding the other indicator alone",
         "In every reachable state of every enumerated pair/triple (all ordered pairs of the pool, name-relationship triples, members on shared/nested/differently spelled/fill-flagged timeframes over a gappy stream) and operation word aimed at either member, every other indicator has exactly the readings it has alone.",
         "shipped naming; user supplied fullname_override collisions are outside the alphabet", "6 C13"),
 "C14": ("E2", "explicit-state BFS over maintenance operation sequences with state deduplication; transition and state oracles",
         "Every operation sequence up to the depth bound over the menu (incl. re-adding the very object that was removed, members on their own timeframe, Hexital-level HA/timeframe/fill) converges to the batch state after calculate(), with per-transition idempotence/purge/recompute oracles; states are deduplicated on a deep snapshot of the whole object graph.",
         "indices restricted as the property says", "6 C14"),
 "C15": ("E1", "bounded exhaustive enumeration of streams x lifespans x schedules; window invariant + differential against an untrimmed twin on eligible cases",
         "After every append exactly the lifespan window is retained; readings equal the untrimmed twin whenever look-back was retained.",
         "look-back = max(measured warm-up, integer parameters, 1 predecessor), no slack", "6 C15"),
 "C16": ("E1", "exhaustive enumeration of reading lists x indices x lengths for every analysis function; truncation / negative-index differential oracles",
         "f(list, i) == f(list[:i+1]) == f(list, i-n) for every function, index and argument in the enumerated space; never raises on missing readings; wrapped column equal live and batch.",
         "lists up to the stated length", "6 C16"),
 "C17": ("E1", "exhaustive enumeration of reading lists / candle grids / pattern histories against reference predicates; scaling and shift invariance",
         "Every movement predicate agrees with its one-line reference on all enumerated inputs; geometry on the full grid; patterns on witnesses/counter-witnesses with 2x margins.",
         "one admitted window convention for highestbar/lowestbar", "6 C17"),
 "C19": ("E2", "explicit-state exploration of accessor/append interleavings with full deep snapshots before/after each accessor; encoding differential",
         "In every reachable state (incl. lifespan-trimmed ones) applying any accessor of the menu leaves the object observationally equal - all candles of all timeframes and the results of all accessors - immediately and after 1 and 2 further appends; all 9 encodings of a candle give the same state; caller containers unchanged.",
         "deep snapshot of instance dicts; encoding matrix on the integer grid and on a six-decimal / fractional-volume scale; delivery search over append / remove_indicator / add-back", "6 C19"),
 "C20": ("E1", "exhaustive enumeration of states x names x indices; agreement oracle between all access paths",
         "All access paths agree in every enumerated state, has_reading iff latest is not None, reading_count = trailing run.",
         "", "6 C20"),
 "C07": ("E3", "exhaustive measurement of every append n in [1,N] for every config x host with sys.monitoring; boundedness oracle",
         "Executed indicator-code events per append are bounded by the post-warm-up constant for every n up to N, every config and host.",
         "events counted in hexital indicator/analysis/utils code; candle_manager excluded as the property names indicator code", "6 C07"),
}

def build(done):
    checks = []
    for pid in sorted(done):
        eng, tech, text, note, ref = CHECKS[pid]
        checks.append({
            "property_id": pid,
            "quick_cmd": f"./run {pid} --tier quick",
            "thorough_cmd": f"./run {pid} --tier thorough",
            "evidence_file": f"/verif/evidence/{pid}.json",
            "replay_cmd_template": f"./run {pid} --replay {{path}}",
            "engine": eng,
            "level_claimed": {"category": "model_checking", "text": text, "design_ref": "DESIGN.md section " + ref},
            "level_note": note or "bounded alphabets as stated in the evidence file",
            "technique": tech,
        })
    na = [{"property_id": p, "reason": "check not built yet in this round (planned: " + CHECKS[p][1][:80] + ")"} for p in sorted(CHECKS) if p not in done]
    return {
        "version": 1,
        "setup_cmd": "./setup.sh",
        "hooks": {"guard": "HEXITAL_VERIF", "enable": "no hooks are needed: all observation is from outside (public API, candle dictionaries, sys.monitoring)",
                  "baseline_off_cmd": "cd /repo && /venv/bin/python -m pytest -ra -q -p no:cacheprovider --timeout=900 --continue-on-collection-errors",
                  "source_commits": [], "add_only": True},
        "engines": [
            {"name": "E1", "path": "hxmc/props/c01.py hxmc/props/c03.py hxmc/props/c04.py hxmc/props/c08.py hxmc/props/c09.py hxmc/props/c11.py", "serves_properties": ["C01","C02","C03","C04","C05","C06","C08","C09","C10","C11","C12","C15","C16","C17","C20"], "kind_free_text": "stateless bounded-exhaustive explorer of streams x schedules x configs on the real implementation"},
            {"name": "E2", "path": "hxmc/props/c13.py hxmc/props/c14.py hxmc/props/c19.py", "serves_properties": ["C13","C14","C19"], "kind_free_text": "explicit-state BFS over API operation sequences with canonical-state deduplication"},
            {"name": "E3", "path": "hxmc/props/c07.py", "serves_properties": ["C07"], "kind_free_text": "work meter (sys.monitoring) over every append n"},
            {"name": "E4", "path": "hxmc/props/c18.py", "serves_properties": ["C18"], "kind_free_text": "environment matrix: one process per time zone"},
        ],
        "checks": checks,
        "not_applicable": na,
        "notes": "All checks explore the real hexital package from /repo's working tree (VERIF_REPO overrides). No model/implementation gap: traces_validated_against_impl = executions.",
    }

if __name__ == "__main__":
    import sys
    mods = json.load(open(os.path.join(ROOT, "tools", "done.json")))
    m = build(mods)
    json.dump(m, open(os.path.join(ROOT, "MANIFEST.json"), "w"), indent=1)
    print("checks:", len(m["checks"]), "not_applicable:", len(m["not_applicable"]))
