#!/bin/bash
# Offline setup: nothing to build or fetch. Verifies the interpreter, the repo binding and the reference library.
set -e
cd "$(dirname "$0")"
export TZ=UTC PYTHONHASHSEED=0 PYTHONDONTWRITEBYTECODE=1
/venv/bin/python -m hxmc.selftest
