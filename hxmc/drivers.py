"""Drivers: build real hexital objects from raw (JSON-able) streams and run append schedules."""
from __future__ import annotations

from datetime import datetime, timedelta

from .alphabet import shape, timestamps, tf_seconds, variant
from .common import bind_repo, canon_candles, cnum
from .configs import make


def raw_stream(word, first="b", gaps=None, tf=None, var=None):
    """word over SHAPES -> list of (o,h,l,c,v,iso) tuples. gaps default: one base step apart."""
    var = var or variant()
    step = tf_seconds(tf)
    if gaps is None:
        gaps = "t" * (len(word) - 1)
    ts = timestamps(first, gaps, step, var["base"])
    return [shape(w, var) + (t.isoformat(),) for w, t in zip(word, ts)]


def fresh(raw):
    """Fresh Candle objects (the library mutates and takes ownership of what it is given)."""
    bind_repo()
    from hexital.core.candle import Candle

    return [Candle(o, h, l, c, v, timestamp=datetime.fromisoformat(t) if t else None) for o, h, l, c, v, t in raw]


def host_kw(tfc):
    """tfc = (timeframe|None, fill, lifespan_seconds|None, candlestick|None)"""
    tf, fill, life, cs = tfc
    kw = {}
    if tf is not None:
        kw["timeframe"] = tf
        kw["timeframe_fill"] = bool(fill)
    if life is not None:
        kw["candles_lifespan"] = timedelta(seconds=life)
    if cs is not None:
        kw["candlestick_type"] = cs
    return kw


def tfc_label(tfc):
    tf, fill, life, cs = tfc
    return f"{tf or 'base'}{'+fill' if fill else ''}{'+life%d' % life if life else ''}{'+' + cs if cs else ''}"


def batch(cfg, raw, tfc):
    ind = make(cfg, candles=fresh(raw), **host_kw(tfc))
    ind.calculate()
    return ind


def run_schedule(cfg, raw, tfc, preload, calc_first, comp, on_step=None):
    """Indicator pre-loaded with raw[:preload] (optionally calculated), then raw[preload:] appended
    in chunks of sizes comp. on_step(ind, consumed) is called after construction and every append."""
    if calc_first == "restart":
        # a first instance calculates the pre-load; a second instance of the same configuration is then created over the
        # very same (already calculated) candle objects and takes over the stream - a strategy restart
        first = make(cfg, candles=fresh(raw[:preload]), **host_kw(tfc))
        first.calculate()
        ind = make(cfg, candles=first.candles, **host_kw(tfc))
    else:
        ind = make(cfg, candles=fresh(raw[:preload]), **host_kw(tfc))
        if calc_first:
            ind.calculate()
    pos = preload
    if on_step:
        on_step(ind, pos)
    for k in comp:
        chunk = fresh(raw[pos:pos + k])
        ind.append(chunk[0] if k == 1 and (pos % 2 == 0) else chunk)  # single Candle and list forms
        pos += k
        if on_step:
            on_step(ind, pos)
    return ind


def obs(ind):
    """Observable canon: candles (timestamp, OHLCV) and every reading on every candle."""
    return canon_candles(ind.candles)


def full(ind):
    """Full canon: observable + conversion bookkeeping + cursor fields of the indicator tree."""
    return (canon_candles(ind.candles, with_clean=True), _tree(ind))


def _tree(ind):
    return (
        ind.name,
        ind._active_index,
        ind._initialised,
        tuple(sorted((k, _tree(v)) for k, v in ind.sub_indicators.items())),
        tuple(sorted((k, _tree(v)) for k, v in ind.managed_indicators.items())),
    )
