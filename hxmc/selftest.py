"""Self-test of the harness: repo binding, interval arithmetic soundness spot checks, reference models against
brute-force restatements. Exits non-zero on any failure."""
import itertools
import math
import sys

from .common import bind_repo
from .ref import cm, ind
from .ref.iv import Iv, st, cmp_gt


def main():
    hx = bind_repo()
    # interval soundness on a grid of exact rationals
    vals = [-3.5, -1.0, -0.25, 0.0, 0.25, 1.0, 2.5, 7.0]
    for a, b in itertools.product(vals, repeat=2):
        A, B = Iv(a - 0.1, a + 0.1), Iv(b - 0.05, b + 0.2)
        for x in (a - 0.1, a, a + 0.1):
            for y in (b - 0.05, b, b + 0.2):
                assert (A + B).contains(x + y) and (A - B).contains(x - y) and (A * B).contains(x * y)
                if not B.has_zero():
                    assert (A / B).contains(x / y)
    assert st(Iv(1.23456), 4).contains(round(1.23456, 4))
    assert cmp_gt(Iv(1, 2), Iv(2, 3)) is False and cmp_gt(Iv(3, 4), Iv(1, 2)) is True and cmp_gt(Iv(1, 3), Iv(2, 4)) is None
    # reference collapse against a brute-force bucket assignment
    raw = [(1, 2, 0, 1, 3, "2024-03-04T00:00:01"), (2, 5, 1, 4, 2, "2024-03-04T00:02:00"), (3, 4, 2, 3, 1, "2024-03-04T00:02:01"),
           (9, 9, 9, 9, 4, "2024-03-04T00:11:00")]
    got = cm.collapse(raw, 120)
    assert [g[5][11:] for g in got] == ["00:02:00", "00:04:00", "00:12:00"], got
    assert got[0][:5] == (1, 5, 0, 4, 5), got
    f = cm.fill(got, 120)
    assert [g[5][14:16] for g in f] == ["02", "04", "06", "08", "10", "12"] and f[2][:5] == (3, 3, 3, 3, 0)
    # reference SMA/EMA against direct formulas
    xs = [Iv(v) for v in (1.0, 2.0, 4.0, 8.0, 16.0)]
    s = ind.sma(xs, 2, 4)
    assert s[0] is None and s[1].contains(1.5) and s[4].contains(12.0)
    e = ind.ema(xs, 2, 4)
    assert e[1].contains(1.5) and e[2].contains(2 / 3 * 4 + 1 / 3 * 1.5)
    r = ind.rma(xs, 2, 4)
    assert r[1].contains((2.0 + 0.5 * 1.0) / 1.5)
    print("selftest ok; hexital from", hx.__file__)


if __name__ == "__main__":
    main()
