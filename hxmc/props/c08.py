"""C08 indicators inside a Hexital behave exactly like the same indicators standalone.
E1: member sets x forms x Hexital-level settings x streams x supply schedules; differential oracle against a
standalone twin whose effective configuration is read off the registered member after adoption."""
from __future__ import annotations

import itertools
import time
from datetime import timedelta

from .. import alphabet as A
from ..common import Report, deadline, Horizon, finish, merge_all, pmap, bind_repo, cnum
from ..configs import ALL, BY_LABEL, CORE, PATTERNS, WRAPPERS, make, as_dict
from ..drivers import fresh, raw_stream

POOL = ["SMA2", "EMA2", "RSI2", "MACD232", "BBANDS2", "ST2", "OBV", "ATR2"]
MEMBER_TFS = [None, "T2", "T4"]


def hexital_cfgs(tier):
    out = []
    for tf in (None, "T2"):
        for fill in (False, True):
            for life in (None, 2):
                for cs in (None, "HA"):
                    out.append((tf, fill, life, cs))
    return out


SCHEDULES_Q = ["ctor", (1, 1, 1, 1), (2, 2), (1, 3), ("add", 2)]


def schedules(n, tier):
    if tier == "quick":
        return ["ctor", (1,) * n, (2, n - 2), (1, n - 1), ("add", 2), ("add", 0), ("pre", 1), ("pre", 3)]
    return ["ctor"] + A.compositions(n) + [("add", k) for k in range(0, n)] + [("pre", k) for k in range(1, n)]


def candles_view(candles):
    return [(c.timestamp.isoformat(), cnum(c.open), cnum(c.high), cnum(c.low), cnum(c.close), cnum(c.volume)) for c in candles]


def build_member(cfg, form, mtf):
    """The member in the requested form: Indicator object, config dict, or settings dict of a prototype."""
    own = {"timeframe": mtf} if mtf else {}
    if form == "object":
        return make(cfg, **own)
    if form == "dict":
        return as_dict(cfg, **own)
    proto = make(cfg, **own)
    return proto.settings


def run_hexital(members, hcfg, raw, sched):
    """members: list of (cfg, form, mtf). Returns the live Hexital."""
    bind_repo()
    from hexital import Hexital
    tf, fill, life, cs = hcfg
    kw = {}
    if tf:
        kw["timeframe"] = tf
    if fill:
        kw["timeframe_fill"] = True
    if life:
        kw["candles_lifespan"] = timedelta(seconds=life * 60)
    if cs:
        kw["candlestick_type"] = cs
    built = [build_member(*m) for m in members]
    if sched == "ctor":
        hx = Hexital("h", fresh(raw), built, **kw)
        hx.calculate()
        return hx
    if sched[0] == "pre":  # k candles at construction, the rest appended one at a time
        k = sched[1]
        hx = Hexital("h", fresh(raw[:k]), built, **kw)
        hx.calculate()
        for c in fresh(raw[k:]):
            hx.append(c)
        return hx
    if sched[0] == "add":
        k = sched[1]
        hx = Hexital("h", [], [], **kw)
        for c in fresh(raw[:k]):
            hx.append(c)
        hx.add_indicator(built)
        for c in fresh(raw[k:]):
            hx.append(c)
        if k == len(raw):
            hx.calculate()
        return hx
    hx = Hexital("h", [], built, **kw)
    pos = 0
    for n in sched:
        hx.append(fresh(raw[pos:pos + n]))
        pos += n
    return hx


def run_twin(cfg, member, raw, sched):
    kw = {}
    if member.timeframe:
        kw["timeframe"] = member.timeframe
        kw["timeframe_fill"] = member.timeframe_fill
    if member.candles_lifespan:
        kw["candles_lifespan"] = member.candles_lifespan
    if member.candlestick_type:
        kw["candlestick_type"] = member.candlestick_type.minimal_name
    if sched == "ctor":
        tw = make(cfg, candles=fresh(raw), **kw)
        tw.calculate()
        return tw
    if sched[0] == "pre":
        k = sched[1]
        tw = make(cfg, candles=fresh(raw[:k]), **kw)
        tw.calculate()
        for c in fresh(raw[k:]):
            tw.append(c)
        return tw
    if sched[0] == "add":
        k = sched[1]
        tw = make(cfg, candles=fresh(raw[:k]), **kw)
        for c in fresh(raw[k:]):
            tw.append(c)
        if k == len(raw):
            tw.calculate()
        return tw
    tw = make(cfg, **kw)
    pos = 0
    for n in sched:
        tw.append(fresh(raw[pos:pos + n]))
        pos += n
    return tw


def explained_by_trimmed_source(cfg, member, raw, sched, life, got_c, got_r, hcfg):
    """True iff the member equals a standalone twin fed only the raw candles that had survived the default
    manager's lifespan trim when the member's timeframe manager was built."""
    from ..ref import cm as RC
    k = len(raw) if sched == "ctor" else sched[1]
    if k == 0:
        return False
    kind = "ctor" if sched == "ctor" else sched[0]
    htf, hfill = hcfg[0], hcfg[1]
    keep = list(raw[:k])
    if htf:  # what a default manager with the Hexital-level settings retains, in raw (unconverted) form
        keep = RC.collapse(keep, A.tf_seconds(htf))
        real = {c[5] for c in keep}
        if hfill:
            keep = RC.fill(keep, A.tf_seconds(htf))
        keep = [c for c in RC.trim(keep, life * 60) if c[5] in real]  # gap-fill candles are not handed on to a new manager
    else:
        keep = RC.trim(keep, life * 60)
    try:
        tw = run_twin(cfg, member, keep + list(raw[k:]), "ctor" if kind == "ctor" else (kind, len(keep)))
    except Exception:
        return False
    return candles_view(tw.candles) == got_c and [cnum(x) for x in tw.as_list()] == got_r


def member_name(cfg, mtf):
    return make(cfg, **({"timeframe": mtf} if mtf else {})).name


def one(rep, members, hcfg, raw, sched, horizon):
    case = {"members": [(m[0]["label"], m[1], m[2]) for m in members], "hcfg": hcfg, "raw": raw, "sched": sched}
    kinds = "+".join(sorted({m[0].get("cls", m[0].get("analysis")) for m in members})) if len(members) == 1 else f"set{len(members)}"
    try:
        with deadline(horizon):
            hx = run_hexital(members, hcfg, raw, sched)
    except Horizon:
        rep.inc("executions")
        rep.violation(f"C08|{kinds}|{members[0][1]}|horizon", dict(case, oracle="horizon"))
        return "horizon"
    except Exception as e:
        rep.inc("executions")
        rep.violation(f"C08|{kinds}|{members[0][1]}|raised|{type(e).__name__}", dict(case, oracle="raised", error=repr(e)))
        return
    rep.inc("executions")
    rep.inc("transitions", 1 if sched == "ctor" else len(raw) + 1)
    tf, fill, life, cs = hcfg
    for (cfg, form, mtf) in members:
        name = member_name(cfg, mtf)
        kind = cfg.get("cls", cfg.get("analysis"))
        if name not in hx.indicators:
            rep.violation(f"C08|{kind}|{form}|not-registered", dict(case, oracle="registered", name=name, have=sorted(hx.indicators)))
            continue
        m = hx.indicator(name)
        try:
            with deadline(horizon):
                tw = run_twin(cfg, m, raw, sched)
        except Exception as e:
            rep.inc("twin_raised")
            continue
        rep.inc("executions")
        got_c, want_c = candles_view(m.candles), candles_view(tw.candles)
        got_r, want_r = [cnum(x) for x in m.as_list()], [cnum(x) for x in tw.as_list()]
        rep.add("states", (tuple(got_c), tuple(got_r)))
        if ((got_c != want_c or got_r != want_r) and life and mtf and (sched == "ctor" or sched[0] in ("add", "pre"))
                and explained_by_trimmed_source(cfg, m, raw, sched, life, got_c, got_r, hcfg)):
            # derived manager built from the already trimmed default candles: its oldest retained bucket(s) lack
            # the raw candles the default manager had dropped (known finding; precise differential characterisation)
            rep.violation("C08|lifespan+member-timeframe|derived-manager-built-from-trimmed-candles",
                          dict(case, oracle="candles", name=name, got=got_c, want=want_c))
        elif got_c != want_c:
            rep.violation(f"C08|{kind if len(members) == 1 else 'set'}|{form}|candles!=twin", dict(case, oracle="candles", name=name, got=got_c, want=want_c))
        elif got_r != want_r:
            rep.violation(f"C08|{kind if len(members) == 1 else 'set'}|{form}|readings!=twin", dict(case, oracle="readings", name=name, got=got_r, want=want_r))
        elif any(x is not None for x in want_r):
            rep.add("nontrivial", (tuple(case["members"]), hcfg, tuple(raw), sched, name))
    if tf is None and cs is None:
        got = [(c[0],) + c[1:] for c in candles_view(hx.candles())]
        want = [(r[5], cnum(r[0]), cnum(r[1]), cnum(r[2]), cnum(r[3]), cnum(r[4])) for r in raw]
        if got != want[len(want) - len(got):] or (life is None and len(got) != len(want)):
            rep.violation("C08|base-candles-changed", dict(case, oracle="base", got=got, want=want))


def explore(item):
    tier, mode, payload = item
    rep = Report()
    hz = 3.0 if tier == "quick" else 6.0
    if mode == "single":
        label, mtf, form = payload
        cfg = BY_LABEL[label]
        n = 4 if tier == "quick" else 5
        is_pat = cfg in PATTERNS
        for hcfg in hexital_cfgs(tier):
            if form != "object" and (hcfg[2] or hcfg[3]):
                continue  # forms vary the construction route; lifespan/HA are varied with objects
            hits = 0
            for word in A.words("UD", n):
                w = ("UDJUDJUDJU" + word) if is_pat else word
                gks = ("reg",) if tier == "quick" else ("reg", "mix")
                if hcfg[1] and (hcfg[0] or mtf) and not is_pat:
                    gks = gks + ("gappy", "mix")[: (1 if tier == "quick" else 2)]  # fill only matters when there are gaps
                for gk, off in [(g, o) for g in dict.fromkeys(gks) for o in (("+", "b") if (hcfg[0] and g == "reg") else ("+",))]:
                    raw = raw_stream(w, off, A.regular_gaps(gk, len(w), 120), "T2")  # off 'b': raw candles exactly on bucket edges
                    for sched in schedules(len(w), tier):
                        if is_pat and sched != "ctor" and sched[0] != "add" and len(sched) > 4:
                            continue
                        r = one(rep, [(cfg, form, mtf)], hcfg, raw, sched, hz)
                        if r == "horizon":
                            hits += 1
                            if hits >= 2:
                                break
                    if hits >= 2:
                        break
                if hits >= 2:
                    break
            rep.sample({"member": label, "member_tf": mtf, "form": form, "hexital": hcfg})
    else:
        labels, mtfs = payload
        members = [(BY_LABEL[l], "object", t) for l, t in zip(labels, mtfs)]
        n = 4
        for hcfg in [(None, False, None, None), ("T2", False, None, None), (None, False, None, "HA"), ("T2", True, None, None)]:
            if hcfg[0] and any(t and A.tf_seconds(t) % A.tf_seconds(hcfg[0]) for t in mtfs):
                continue  # assumption: member timeframes are multiples of the Hexital-level timeframe (a T3 member cannot be rebuilt from T2 buckets)
            for word in list(A.words("UD", n))[:: (2 if len(labels) == 2 else 4)]:
                raw = raw_stream(word, "+", A.regular_gaps("reg", n, 120), "T2")
                for sched in ("ctor", (1,) * n, (2, 2), ("pre", 2)):
                    one(rep, members, hcfg, raw, sched, hz)
        # gaps: every gap word over {same bucket, next bucket, skip one, 2.5 buckets}, with and without Hexital-level fill
        if len(set(t for t in mtfs if t)) >= 2 and labels[0] in ("SMA2", "OBV", "ST2"):  # nested member timeframes
            n5 = 5
            for hcfg in [(None, True, None, None), (None, False, None, None)]:
                for gaps in A.words("ht2x", n5 - 1):
                    raw = raw_stream("UDJLU", "+", gaps, "T2")
                    for sched in ("ctor", ("pre", 3)):
                        one(rep, members, hcfg, raw, sched, hz)
        rep.sample({"members": labels, "member_tfs": mtfs})
    return rep


def replay(case):
    rep = Report()
    members = [(BY_LABEL[l], f, t) for l, f, t in case["members"]]
    sched = case["sched"]
    if isinstance(sched, list):
        sched = tuple(sched)
    one(rep, members, tuple(case["hcfg"]), [tuple(r) for r in case["raw"]], sched, 20)
    return bool(rep.viol)


def main(prop, tier):
    t0 = time.time()
    items = []
    for cfg in ALL + PATTERNS:
        for mtf in MEMBER_TFS:
            for form in ("object", "dict", "settings"):
                if cfg in PATTERNS and (form != "object" and mtf == "T4"):
                    continue
                items.append((tier, "single", (cfg["label"], mtf, form)))
    tfc2 = list(itertools.product(MEMBER_TFS, repeat=2)) + [("T2", "t2"), ("t2", "T2"), ("t4", "T2"), ("S120", "S120"), ("S240", "T4"), ("T2", "T3"), ("T3", "T2")]  # spelling variants share a manager
    for a, b in itertools.permutations(POOL, 2):
        for mt in tfc2 if tier != "quick" else tfc2[::2] + tfc2[-7:]:
            items.append((tier, "set", ((a, b), mt)))
    tfc3 = [(None, None, None), (None, "T2", "T4"), ("T2", "T2", None), ("T4", None, "T2"), ("T2", None, "t2")]
    trip = list(itertools.permutations(POOL, 3))
    for t in (trip if tier != "quick" else trip[::6]):
        for mt in tfc3:
            items.append((tier, "set", (t, mt)))
    rep = merge_all(pmap(explore, items, chunksize=2))
    rule = ("every shipped class (+ every analysis wrapper) as a singleton member x member timeframe {none,T2,T4} x form {object, config dict, "
            "settings dict} x Hexital-level {timeframe, fill, lifespan, candlestick} x streams {U,D}^n x supply {constructor, append schedules, "
            "add_indicator after k appends}; ordered pairs and triples from an 8-config pool with mixed member timeframes; each member compared "
            "(candles and readings, bit-exact) with a standalone twin fed the same schedule; non-trivial = distinct (member set, Hexital config, "
            "stream, schedule, member) whose twin has at least one non-None reading and which compared equal")
    return finish(prop, tier, rep, t0, rule=rule,
                  bounds={"pool": POOL, "member_tfs": MEMBER_TFS, "hexital_cfgs": hexital_cfgs(tier), "configs": len(ALL) + len(PATTERNS), "variant": A.variant()},
                  replay_confirm=replay,
                  assumptions=["member timeframes are multiples of the Hexital-level timeframe", "TZ=UTC"])
