"""C04 / C05 / C06: indicators equal their definitions within rounding error.
E1 batch over sigma^N x input placements, compared element by element with the interval references of
ref/ind.py; position independence (C04) is an exact differential oracle."""
from __future__ import annotations

import time

from .. import alphabet as A
from ..common import Report, deadline, Horizon, finish, merge_all, pmap, bind_repo
from ..configs import BY_LABEL, CORE, make, _c
from ..drivers import fresh, raw_stream
from ..ref import ind as R
from ..ref.iv import Iv

GROUPS = {
    "C04": ["SMA", "EMA", "RMA", "WMA", "VWMA", "HMA"],
    "C05": ["TR", "ATR", "STDEV", "BBANDS", "KC", "donchian", "HL", "HLA", "Supertrend", "STDEVTHRES", "Counter"],
    "C06": ["RSI", "MACD", "ROC", "STOCH", "TSI", "aroon", "ADX", "OBV", "VWAP"],
}
EXTRA = [
    _c("EMA3r2_", "EMA", period=3, round_value=2),
    _c("SMA3r0_", "SMA", period=3, round_value=0),
    _c("RMA3r8_", "RMA", period=3, round_value=8),
    _c("SMA2r8_", "SMA", period=2, round_value=8),
    _c("EMA3r8_", "EMA", period=3, round_value=8),
    _c("WMA2r6_", "WMA", period=2, round_value=6),
    _c("VWMA2r8_", "VWMA", period=2, round_value=8),
    _c("DON3r8_", "donchian", period=3, round_value=8),
    _c("BBANDS2r8_", "BBANDS", period=2, round_value=8),
    _c("ROC2r8_", "ROC", period=2, round_value=8),
    _c("VWAPr8_", "VWAP", round_value=8),
    _c("WMA4", "WMA", period=4),
    _c("HMA2", "HMA", period=2),
    _c("RSI3r8_", "RSI", period=3, round_value=8),
    _c("MACD232r2_", "MACD", fast_period=2, slow_period=3, signal_period=2, round_value=2),
    _c("MACD32swap", "MACD", fast_period=3, slow_period=2, signal_period=2),
    _c("ATR2r8_", "ATR", period=2, round_value=8),
    _c("KC2r1_", "KC", period=2, multiplier=1.0, round_value=1),
    _c("ST2m2", "Supertrend", period=2, multiplier=2.0),
    _c("COUNTclose11", "Counter", input_value="close", count_value=11),
    _c("STOCH232", "STOCH", period=2, slow_period=3, smoothing_k=2),
    _c("TSI3s2", "TSI", period=3, smooth_period=2),
    _c("ADX23", "ADX", period=2, period_signal=3),
    _c("STDEV4", "STDEV", period=4),
    _c("DON4", "donchian", period=4),
    _c("AROON4", "aroon", period=4),
    _c("ROC1", "ROC", period=1),
]
# library defaults (and other larger periods), run on a fixed 44-candle pre-amble followed by an exhaustive suffix
DEFAULTS = [
    _c("SMA10d", "SMA", period=10), _c("EMA10d", "EMA", period=10), _c("RMA10d", "RMA", period=10), _c("WMA10d", "WMA", period=10),
    _c("VWMA10d", "VWMA", period=10), _c("HMA10d", "HMA", period=10), _c("HMA16d", "HMA", period=16),
    _c("TRd", "TR"), _c("ATR14d", "ATR", period=14), _c("STDEV30d", "STDEV", period=30), _c("BBANDS5d", "BBANDS", period=5),
    _c("KC20d", "KC", period=20, multiplier=2.0), _c("DON20d", "donchian", period=20), _c("HL100d", "HL", period=100),
    _c("ST7d", "Supertrend", period=7, multiplier=3.0), _c("STDEVTHRES10d", "STDEVTHRES", period=10, multiplier=2.0),
    _c("RSI14d", "RSI", period=14), _c("MACDd", "MACD", fast_period=12, slow_period=26, signal_period=9), _c("ROC10d", "ROC", period=10),
    _c("STOCH14d", "STOCH", period=14, slow_period=3, smoothing_k=3), _c("TSI25d", "TSI", period=25), _c("AROON14d", "aroon", period=14),
    _c("ADX14d", "ADX", period=14, period_signal=14), _c("OBVd", "OBV"), _c("VWAP10d", "VWAP", period=10),
]
PREAMBLE44 = "UDJLHVUJDLFUVJHDULJZHUDVLJUHDJLVUFHJDLUVJHZD"
for _x in EXTRA + DEFAULTS:
    BY_LABEL[_x["label"]] = _x
HAS_INPUT = {"SMA", "EMA", "RMA", "WMA", "HMA", "STDEV", "BBANDS", "KC", "STDEVTHRES", "RSI", "MACD", "ROC", "TSI"}


def reference(cfg, cands, x):
    """Expected series (or dict of series) for cfg over candles, x = input series (Iv / None)."""
    k = cfg["cls"]
    kw = cfg["kw"]
    rv = kw.get("round_value", 4)
    p = kw.get("period")
    if k == "SMA": return R.sma(x, p, rv)
    if k == "EMA": return R.ema(x, p, rv, kw.get("smoothing", 2.0))
    if k == "RMA": return R.rma(x, p, rv)
    if k == "WMA": return R.wma(x, p, rv)
    if k == "VWMA": return R.vwma(cands, p, rv)
    if k == "HMA": return R.hma(x, p, rv)
    if k == "TR": return R.tr(cands, rv)
    if k == "ATR": return R.atr(cands, p, rv)
    if k == "STDEV": return R.stdev(x, p, rv)
    if k == "BBANDS": return R.bbands(x, p, rv)
    if k == "KC": return R.kc(cands, x, p, kw["multiplier"], rv)
    if k == "donchian": return R.donchian(cands, p, rv)
    if k == "HL": return R.highest_lowest(cands, p, rv)
    if k == "HLA": return R.hla(cands, rv)
    if k == "Supertrend": return R.supertrend(cands, p, kw["multiplier"], rv)
    if k == "STDEVTHRES": return R.stdevthres(x, p, kw["multiplier"], rv)
    if k == "Counter":
        i = "ohlcv".index(kw["input_value"][0])
        return R.counter([c[i] for c in cands], kw["count_value"])
    if k == "RSI": return R.rsi(x, p, rv)
    if k == "MACD": return R.macd(x, kw["fast_period"], kw["slow_period"], kw["signal_period"], rv)
    if k == "ROC": return R.roc(x, p, rv)
    if k == "STOCH": return R.stoch(cands, p, kw["smoothing_k"], kw["slow_period"], rv)
    if k == "TSI":
        sp = kw.get("smooth_period") or (int(p / 2) + (p % 2 > 0))
        return R.tsi(x, p, sp, rv)
    if k == "aroon": return R.aroon(cands, p, rv)
    if k == "ADX": return R.adx(cands, p, kw["period_signal"], rv)
    if k == "OBV": return R.obv(cands, rv)
    if k == "VWAP": return R.vwap(cands, rv)
    raise KeyError(k)


CONVENTION_KINDS = {"STDEV", "BBANDS"}
EPS = 1e-9


def match(exp, got):
    """-> 'ok' | 'skip' | description of the mismatch"""
    if exp is R.UNDEF:
        return "skip"
    if isinstance(exp, tuple) and exp and exp[0] == "EITHER":
        rs = [match(e, got) for e in exp[1:]]
        return "ok" if "ok" in rs else rs[-1]
    if exp is None:
        return "ok" if got is None else f"unexpected reading {got!r} (none defined here)"
    if isinstance(exp, Iv):
        if got is None:
            return "missing reading"
        if isinstance(got, bool) or not isinstance(got, (int, float)):
            return f"non numeric {got!r}"
        if not exp.bounded():
            return "skip"
        return "ok" if exp.contains(got, EPS * max(1.0, abs(got))) else f"value {got!r} outside {exp!r}"
    return "ok" if (got == exp and not isinstance(got, dict)) else f"value {got!r} != {exp!r}"


def compare(prop, rep, cfg, exp, got, case):
    kind = cfg["cls"]
    fields = list(exp.keys()) if isinstance(exp, dict) else [None]
    tight = 0
    for f in fields:
        es = exp[f] if f is not None else exp
        first_def = next((t for t, e in enumerate(es) if e is not None), None)
        for t, e in enumerate(es):
            g = got[t]
            if f is not None:
                g = g.get(f) if isinstance(g, dict) else None
            if kind in CONVENTION_KINDS and t == first_def and g is None:
                rep.notes.setdefault(f"warmup_convention_{kind}", set()).add("one-after-first-full-window")
                continue
            if kind in CONVENTION_KINDS and t == first_def:
                rep.notes.setdefault(f"warmup_convention_{kind}", set()).add("at-first-full-window")
            m = match(e, g)
            rep.inc("comparisons")
            if m == "skip":
                rep.inc("skipped_undefined")
            elif m != "ok":
                what = m.split()[0]
                rep.violation(f"{prop}|{kind}|{f or 'value'}|{what}",
                              dict(case, oracle="reference", index=t, field=f, what=m))
                return False
            elif isinstance(e, Iv):
                if e.width <= 0.011:
                    tight += 1
                else:
                    rep.inc("wide_intervals")
            elif e is not None:
                tight += 1
    if tight:
        rep.add("nontrivial", (case["cfg"], case["placement"], case["word"]))
        rep.inc("tight_comparisons", tight)
    return True


def build(cfg, raw, placement):
    """placement: ('field', name) | ('late', k): input is a reading 'X' (= close) present from index k on."""
    bind_repo()
    cands = fresh(raw)
    kw = {}
    if placement[0] == "ha":
        kw["candlestick_type"] = "HA"
        if cfg["cls"] in HAS_INPUT:
            kw["input_value"] = placement[1]
    elif placement[0] == "field":
        if cfg["cls"] in HAS_INPUT:
            kw["input_value"] = placement[1]
    else:
        k = placement[1]
        for i, c in enumerate(cands):
            if i >= k:
                c.indicators["X"] = c.close
        kw["input_value"] = "X"
    ind = make(cfg, candles=cands, **kw)
    ind.calculate()
    return ind


def xseries(raw, placement):
    cs = [r[:5] for r in raw]
    if placement[0] in ("field", "ha"):
        return R.col(cs, placement[1])
    k = placement[1]
    return [Iv(c[3]) if i >= k else None for i, c in enumerate(cs)]


def placements(cfg, tier):
    if cfg["label"].endswith("d") and cfg in DEFAULTS:
        return [("field", "close")] + ([("late", 3)] if cfg["cls"] in HAS_INPUT else [])
    # ("ha", field): the indicator converts its candles to Heikin-Ashi; the definitions must then hold on the converted candles
    # (taken from the library as they are - the conversion itself is C11's)
    if cfg["cls"] not in HAS_INPUT:
        return [("field", "close"), ("ha", "close")]
    ks = (1, 2, 3) if tier == "quick" else (1, 2, 3, 5)
    return [("field", "close"), ("field", "high"), ("field", "volume"), ("ha", "close")] + [("late", k) for k in ks]


def one(prop, rep, cfg, word, raw, placement, horizon):
    case = {"cfg": cfg["label"], "word": word, "raw": raw, "placement": placement}
    kind = cfg["cls"]
    try:
        with deadline(horizon):
            ind = build(cfg, raw, placement)
    except Horizon:
        rep.inc("executions")
        rep.violation(f"{prop}|{kind}|horizon", dict(case, oracle="horizon"))
        return
    except Exception as e:
        rep.inc("executions")
        rep.violation(f"{prop}|{kind}|raised|{type(e).__name__}", dict(case, oracle="raised", error=repr(e)))
        return
    rep.inc("executions")
    rep.inc("transitions")
    got = ind.as_list()
    rep.add("states", tuple(repr(g) for g in got))
    cs = [r[:5] for r in raw]
    if placement[0] == "ha":
        cs = [(c.open, c.high, c.low, c.close, c.volume) for c in ind.candles]
        exp = reference(cfg, cs, xseries(cs, placement))
    else:
        exp = reference(cfg, cs, xseries(raw, placement))
    ok = compare(prop, rep, cfg, exp, got, case)
    # documented use of recalculate(): "ideal for changing an indicator parameters midway" - build with period+1, calculate,
    # set the period, recalculate: the readings must be those of the new period (simple averages only: composites fix their
    # helpers' periods when they are first calculated)
    if ok and prop == "C04" and placement == ("field", "close") and kind in ("SMA", "EMA", "RMA", "WMA", "VWMA") and "period" in cfg["kw"]:
        try:
            ind2 = make(dict(cfg, kw=dict(cfg["kw"], period=cfg["kw"]["period"] + 1)), candles=fresh(raw),
                        **({"input_value": "close"} if kind in HAS_INPUT else {}))
            ind2.calculate()
            ind2.period = cfg["kw"]["period"]
            ind2.recalculate()
            got2 = ind2.as_list()
        except Exception as e:
            rep.violation(f"{prop}|{kind}|reparam-raised|{type(e).__name__}", dict(case, oracle="reparam", error=repr(e)))
            return
        rep.inc("executions")
        compare(prop, rep, dict(cfg, label=cfg["label"]), exp, got2, dict(case, placement=("reparam", cfg["kw"]["period"] + 1)))
    # position independence: input starting at k == same indicator over close on the list cut at k, shifted
    if ok and placement[0] == "late" and prop == "C04":
        k = placement[1]
        try:
            base = build(cfg, raw[k:], ("field", "close")).as_list()
        except Exception as e:
            return
        rep.inc("executions")
        if got[:k] != [got[0]] * k or any(_nonempty(g) for g in got[:k]) or got[k:] != base:
            rep.violation(f"{prop}|{kind}|position-dependent",
                          dict(case, oracle="position", shifted=got[k:], unshifted=base))


def _nonempty(g):
    if isinstance(g, dict):
        return any(v is not None and v != 1 and v is not False for v in g.values())
    return g is not None and g is not False and g != 0


FINE = {"tick": 0.123457, "offset": 0.000013, "base": A._BASES[0], "rot": 0, "volscale": 0.1}  # prices with 6 significant decimals


def explore(item):
    prop, tier, label, first, sigma, n = item[:6]
    fine = len(item) > 6 and item[6] is True
    pre = PREAMBLE44 if (len(item) > 6 and item[6] == "pre") else ""
    cfg = BY_LABEL[label]
    rep = Report()
    hz = 4.0 if tier == "quick" else 10.0
    for tail in A.words(sigma, n - 1):
        word = pre + first + tail
        raw = raw_stream(word, var=FINE) if fine else raw_stream(word)
        for pl in placements(cfg, tier):
            one(prop, rep, cfg, word, raw, pl, hz)
        rep.sample({"cfg": label, "word": word, "raw": raw, "placements": placements(cfg, tier)})
    return rep


def chain_check(prop, tier):
    """Public chaining route: Hexital([EMA(p), SMA(q, input_value='EMA_p')]) - an input that begins late."""
    bind_repo()
    from hexital import Hexital, EMA, SMA, RMA, WMA
    rep = Report()
    sigma, n = ("UDFJ", 6) if tier == "quick" else ("UDFJV", 7)
    for word in A.words(sigma, n):
        raw = raw_stream(word)
        cs = [r[:5] for r in raw]
        for (p, q, outer) in ((2, 2, "SMA"), (3, 2, "RMA"), (2, 3, "WMA"), (2, 2, "EMA")):
            cls = {"SMA": SMA, "RMA": RMA, "WMA": WMA, "EMA": EMA}[outer]
            inner = R.ema(R.col(cs, "close"), p, 4)
            exp = {"SMA": R.sma, "RMA": R.rma, "WMA": R.wma, "EMA": R.ema}[outer](inner, q, 4)
            for form in ("object", "dict"):  # the reader given as an Indicator object / as a configuration dict
                reader = cls(period=q, input_value=f"EMA_{p}", name_suffix="c") if form == "object" else \
                    {"indicator": outer, "period": q, "input_value": f"EMA_{p}", "name_suffix": "c"}
                cfg = {"label": f"chain-{outer}{q}(EMA{p})-{form}", "cls": outer, "kw": {}}
                case = {"cfg": cfg["label"], "word": word, "raw": raw, "placement": ("chain", p, q, outer, form)}
                try:
                    hx = Hexital("h", fresh(raw), [EMA(period=p), reader])
                    hx.calculate()
                    got = hx.reading_as_list(f"{outer}_{q}_c")
                except Exception as e:
                    rep.violation(f"{prop}|{outer}|chain-raised|{type(e).__name__}", dict(case, oracle="raised", error=repr(e)))
                    continue
                rep.inc("executions")
                rep.inc("transitions")
                compare(prop, rep, cfg, exp, got, case)
    return rep


def replay(case):
    pl = tuple(case["placement"])
    if pl[0] in ("chain", "reparam"):
        return True
    cfg = BY_LABEL[case["cfg"]]
    rep = Report()
    one("X", rep, cfg, case["word"], [tuple(r) for r in case["raw"]], pl, 30)
    return bool(rep.viol)


def main(prop, tier):
    t0 = time.time()
    sigma, n = ("UDFJV", 5) if tier == "quick" else ("UDFJVZ", 6)
    items = []
    cfgs = [c for c in CORE + EXTRA if c["cls"] in GROUPS[prop]]
    for cfg in cfgs:
        for f in sigma:
            items.append((prop, tier, cfg["label"], f, sigma, n))
            # longer words over a smaller alphabet: deeper recurrences, flat runs
            items.append((prop, tier, cfg["label"], f, "UDF" if f in "UDF" else "JVF"[:3], n + 3 if tier == "quick" else n + 4))
            # the same words on a price scale with more decimals than any rounding setting keeps
            items.append((prop, tier, cfg["label"], f, sigma[:4] if tier == "quick" else sigma, n, True))
    for cfg in [c for c in DEFAULTS if c["cls"] in GROUPS[prop]]:
        for f in "UDFJ":
            items.append((prop, tier, cfg["label"], f, "UDFJ", 3 if tier == "quick" else 5, "pre"))
    reps = pmap(explore, items)
    if prop == "C04":
        reps.append(chain_check(prop, tier))
    rep = merge_all(reps)
    # the admitted warm-up convention must be one and the same on all inputs
    for k, v in list(rep.notes.items()):
        if k.startswith("warmup_convention_") and len(v) > 1:
            rep.violation(f"{prop}|{k}|inconsistent", {"oracle": "convention", "seen": sorted(v), "cfg": "-", "word": "-", "raw": [], "placement": ("chain",)})
    rule = ("every word over sigma^n (plus longer words over a 3-letter sub-alphabet) x every indicator config of the group x input placement "
            "{close, high, a reading that starts at offset k} computed in batch by the real code and compared element by element with an "
            "interval-valued reference written from the definitions; non-trivial = distinct (config, placement, word) with at least one "
            "comparison against a tight interval (width <= 0.011) or an exact discrete value")
    return finish(prop, tier, rep, t0, rule=rule,
                  bounds={"sigma": sigma, "n": n, "configs": [c["label"] for c in cfgs], "default_period_configs": [c["label"] for c in DEFAULTS if c["cls"] in GROUPS[prop]], "preamble": PREAMBLE44, "variant": A.variant(), "fine_price_scale": FINE["tick"]},
                  replay_confirm=replay,
                  assumptions=["helper series are stored at 4 decimals, top-level readings at round_value",
                               "undefined quotients and undecidable comparisons are skipped (counted in skipped_undefined)"])
