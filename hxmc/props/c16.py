"""C16 pattern and movement functions are causal and index-consistent.
Function-level E1: every function of both maps x reading lists x every index (positive and negative) x
length / lookback arguments; oracle f(list, i) == f(list[:i+1]) == f(list, i-n); never raises on missing
readings; the Amorph-wrapped column equals the direct evaluation, live and batch."""
from __future__ import annotations

import itertools
import time
from datetime import datetime, timedelta

from .. import alphabet as A
from ..common import Report, finish, merge_all, pmap, bind_repo, jsonable

VALS = [None, 1, 2, 3]
SHAPE_BY_VAL = {None: "F", 1: "U", 2: "D", 3: "J"}  # open/close geometry varies with the reading, for positive/negative
BASE = datetime(2024, 3, 4)

PAT_SHAPES = {
    "U": (10, 12, 9, 11), "L": (12, 13, 6, 7), "J": (9, 14, 9, 13), "D": (11, 11, 8, 9),
    "o": (10, 11, 9, 10), "h": (10, 10.25, 8, 10.2), "i": (8, 10, 7.95, 8.2),
    "s": (14.5, 15, 14, 14.5), "t": (6, 6.5, 5.5, 6),
}
PREAMBLES = ["UDJUDJUDJU", "LUJDULJDUJ", "JJLLUUDDJL", "sDJUDJUDJU", "tUJDULJDUJ"]  # the last two open with a flat-bodied candle far from the rest

SINGLE = ["rising", "falling", "mean_rising", "mean_falling", "highest", "lowest", "highestbar", "lowestbar", "value_range"]
DOUBLE = ["cross", "crossover", "crossunder"]
PLAIN = ["positive", "negative"]
PATTERN = ["doji", "dojistar", "hammer", "inv_hammer"]


def mk(avals, bvals=None, dict_at=None):
    bind_repo()
    from hexital.core.candle import Candle
    out = []
    for i, a in enumerate(avals):
        o, h, l, c, v = A.SHAPES[SHAPE_BY_VAL[a]]
        ind = {}
        if a is not None:
            ind["A"] = a
        if bvals is not None and bvals[i] is not None:
            ind["B"] = bvals[i]
        if dict_at is not None and i == dict_at:
            ind["A"] = {"x": 1}
        out.append(Candle(o, h, l, c, v, timestamp=BASE + timedelta(minutes=i), indicators=ind))
    return out


def mkpat(word, scale=1.0, shift=0.0):
    bind_repo()
    from hexital.core.candle import Candle
    out = []
    for i, w in enumerate(word):
        o, h, l, c = (x * scale + shift for x in PAT_SHAPES[w])
        out.append(Candle(o, h, l, c, 5, timestamp=BASE + timedelta(minutes=i)))
    return out


BAD = ("BAD",)


def call(fn, *a, **k):
    try:
        return ("ok", fn(*a, **k))
    except Exception as e:
        return ("raised", type(e).__name__)


def same(x, y):
    return x == y and type(x[1]) == type(y[1]) if (x[0] == "ok" and y[0] == "ok" and isinstance(x[1], bool) != isinstance(y[1], bool)) else x == y


def triple(rep, name, fn, cands, i, kwargs, case):
    """The three evaluations that must agree for a valid index i."""
    n = len(cands)
    at_i = call(fn, cands, index=i, **kwargs)
    trunc = call(fn, cands[:i + 1], **kwargs)
    neg = call(fn, cands, index=i - n, **kwargs)
    rep.inc("executions", 3)
    rep.inc("transitions", 3)
    rep.add("states", (name, id(cands), i))
    if case.get("dict_at") is not None and at_i[0] == trunc[0] == neg[0] == "raised":
        rep.inc("raised_consistently_on_dict_reading")  # a dict is not a *missing* reading: only consistency is demanded
        return BAD
    for lab, r in (("index", at_i), ("truncated-default", trunc), ("negative-index", neg)):
        if r[0] == "raised":
            rep.violation(f"C16|{name}|raised|{r[1]}", dict(case, oracle="raised", how=lab, index=i, kwargs=kwargs))
            return BAD
    if not same(at_i, trunc):
        rep.violation(f"C16|{name}|index!=truncated", dict(case, oracle="truncated", index=i, kwargs=kwargs, at_index=at_i[1], truncated=trunc[1]))
        return BAD
    if not same(at_i, neg):
        rep.violation(f"C16|{name}|index!=negative-index", dict(case, oracle="negative", index=i, kwargs=kwargs, at_index=at_i[1], negative=neg[1]))
        return BAD
    return at_i[1]


def explore(item):
    tier, mode, payload = item
    bind_repo()
    from hexital.analysis import MOVEMENT_MAP, PATTERN_MAP
    from hexital.indicators import Amorph
    rep = Report()
    if mode == "single":
        name, first = payload
        fn = MOVEMENT_MAP[name]
        n = 5 if tier == "quick" else 6
        lengths = (1, 2, 3, 4, 7)
        for tail in itertools.product(VALS, repeat=n - 1):
            avals = (first,) + tail
            for dict_at in (None, 1):
                cands = mk(avals, dict_at=dict_at)
                case = {"fn": name, "A": avals, "dict_at": dict_at}
                for L in lengths:
                    col = []
                    for i in range(n):
                        r = triple(rep, name, fn, cands, i, {"indicator": "A", "length": L}, case)
                        col.append(r)
                    if dict_at is None and L <= 3:
                        wrapped(rep, name, fn, avals, None, {"indicator": "A", "length": L}, col, case)
                # out of range indices must not raise either
                for i in (n, -n - 1):
                    r = call(fn, cands, index=i, indicator="A", length=2)
                    rep.inc("executions")
                    if r[0] == "raised":
                        rep.violation(f"C16|{name}|raised-out-of-range|{r[1]}", dict(case, oracle="raised", index=i))
                if any(v is not None for v in avals):
                    rep.add("nontrivial", (name, avals, dict_at))
        rep.sample({"fn": name, "A": avals, "lengths": lengths})
    elif mode == "double":
        name, first = payload
        fn = MOVEMENT_MAP[name]
        n = 4 if tier == "quick" else 5
        for tail in itertools.product(VALS, repeat=n - 1):
            avals = (first,) + tail
            for bvals in itertools.product(VALS, repeat=n):
                cands = mk(avals, bvals)
                case = {"fn": name, "A": avals, "B": bvals}
                for L in (1, 2, 3, 6):
                    col = []
                    for i in range(n):
                        col.append(triple(rep, name, fn, cands, i, {"indicator_one": "A", "indicator_two": "B", "length": L}, case))
                    if L == 2 and bvals[0] == first:
                        wrapped(rep, name, fn, avals, bvals, {"indicator_one": "A", "indicator_two": "B", "length": L}, col, case)
                rep.add("nontrivial", (name, avals, bvals))
        rep.sample({"fn": name, "A": avals, "B": bvals})
    elif mode == "plain":
        name = payload
        fn = MOVEMENT_MAP[name]
        n = 5
        for avals in itertools.product(VALS, repeat=n):
            cands = mk(avals)
            case = {"fn": name, "A": avals}
            col = [triple(rep, name, fn, cands, i, {}, case) for i in range(n)]
            wrapped(rep, name, fn, avals, None, {}, col, case)
            rep.add("nontrivial", (name, avals))
        rep.sample({"fn": name, "A": avals})
    else:
        name, pre = payload
        fn = PATTERN_MAP[name]
        k = 3 if tier == "quick" else 4
        for tail in itertools.product("ULJohist", repeat=k):
            word = pre + "".join(tail)
            cands = mkpat(word)
            n = len(cands)
            case = {"fn": name, "word": word}
            fired = False
            for lb in (None, 1, 2, 3, n + 2):
                kw = {} if lb is None else {"lookback": lb}
                col = []
                for i in range(n):
                    r = triple(rep, name, fn, cands, i, kw, case)
                    col.append(r)
                    fired = fired or (r is not BAD and bool(r))
                if lb in (None, 2):
                    wrapped_pat(rep, name, fn, word, kw, col, case)
            for i in (n, -n - 1):
                r = call(fn, cands, index=i)
                if r[0] == "raised":
                    rep.violation(f"C16|{name}|raised-out-of-range|{r[1]}", dict(case, oracle="raised", index=i))
            if fired:
                rep.add("nontrivial", (name, word))
            rep.add("patterns_seen_true" if fired else "patterns_all_false", (name, word))
        rep.sample({"fn": name, "word": word})
    return rep


def wrapped(rep, name, fn, avals, bvals, kwargs, col, case):
    """Amorph over fn: live (one append at a time) and batch columns must equal the direct evaluations."""
    if any(c is BAD for c in col):
        return
    from hexital.indicators import Amorph
    for mode in ("batch", "live"):
        try:
            if mode == "batch":
                ind = Amorph(analysis=fn, candles=mk(avals, bvals), **kwargs)
                ind.calculate()
            else:
                ind = Amorph(analysis=fn, **kwargs)
                for c in mk(avals, bvals):
                    ind.append(c)
        except Exception as e:
            rep.violation(f"C16|{name}|wrapped-raised|{type(e).__name__}", dict(case, oracle="wrapped-raised", mode=mode, kwargs=kwargs))
            return
        rep.inc("executions")
        rep.inc("transitions", 1 if mode == "batch" else len(avals))
        got = ind.as_list()
        want = [round(c, 4) if isinstance(c, float) else c for c in col]
        if got != want:
            rep.violation(f"C16|{name}|wrapped-{mode}!=direct", dict(case, oracle="wrapped", mode=mode, kwargs=kwargs, got=got, want=want))
            return


def wrapped_pat(rep, name, fn, word, kwargs, col, case):
    if any(c is BAD for c in col):
        return
    from hexital.indicators import Amorph
    for mode in ("batch", "live"):
        try:
            if mode == "batch":
                ind = Amorph(analysis=fn, candles=mkpat(word), **kwargs)
                ind.calculate()
            else:
                ind = Amorph(analysis=fn, **kwargs)
                for c in mkpat(word):
                    ind.append(c)
        except Exception as e:
            rep.violation(f"C16|{name}|wrapped-raised|{type(e).__name__}", dict(case, oracle="wrapped-raised", mode=mode, kwargs=kwargs))
            return
        rep.inc("executions")
        got = ind.as_list()
        if got != col:
            rep.violation(f"C16|{name}|wrapped-{mode}!=direct", dict(case, oracle="wrapped", mode=mode, kwargs=kwargs, got=got, want=col))
            return


def replay(case):
    bind_repo()
    from hexital.analysis import MOVEMENT_MAP, PATTERN_MAP
    rep = Report()
    name = case["fn"]
    if "word" in case:
        fn = PATTERN_MAP[name]
        cands = mkpat(case["word"])
        kw = case.get("kwargs") or {}
        if case["oracle"] in ("wrapped", "wrapped-raised"):
            col = [call(fn, cands, index=i, **kw)[1] for i in range(len(cands))]
            wrapped_pat(rep, name, fn, case["word"], kw, col, case)
        else:
            for i in range(len(cands)):
                triple(rep, name, fn, cands, i, kw, case)
        return bool(rep.viol)
    fn = MOVEMENT_MAP[name]
    avals = tuple(case["A"])
    bvals = tuple(case["B"]) if case.get("B") is not None else None
    cands = mk(avals, bvals, case.get("dict_at"))
    kw = case.get("kwargs")
    if kw is None:
        kw = {"indicator": "A", "length": 2}
    if case["oracle"] in ("wrapped", "wrapped-raised"):
        col = [call(fn, cands, index=i, **kw)[1] for i in range(len(cands))]
        wrapped(rep, name, fn, avals, bvals, kw, col, case)
    elif "index" in case and not (0 <= case["index"] < len(cands)):
        return call(fn, cands, index=case["index"], indicator="A", length=2)[0] == "raised"
    else:
        for i in range(len(cands)):
            triple(rep, name, fn, cands, i, kw, case)
    return bool(rep.viol)


def main(prop, tier):
    t0 = time.time()
    items = []
    for name in SINGLE:
        for f in VALS:
            items.append((tier, "single", (name, f)))
    for name in DOUBLE:
        for f in VALS:
            items.append((tier, "double", (name, f)))
    for name in PLAIN:
        items.append((tier, "plain", name))
    for name in PATTERN:
        for pre in PREAMBLES:
            items.append((tier, "pattern", (name, pre)))
    rep = merge_all(pmap(explore, items))
    rule = ("every function of MOVEMENT_MAP and PATTERN_MAP x every reading list over {missing,1,2,3}^n (two series for cross*; one dict-valued "
            "reading variant) x every index 0..n-1 x length/lookback arguments: value at index i, value at the default position of the list "
            "truncated after i, and value at the negative index i-n must agree and none may raise; out-of-range indices must not raise; the "
            "Amorph-wrapped column must equal the direct evaluations live and in batch; patterns over 3 ten-candle preambles x all tails over "
            "8 pattern shapes; non-trivial = distinct input with at least one present reading (patterns: at least one index reported True)")
    return finish(prop, tier, rep, t0, rule=rule,
                  bounds={"values": VALS, "n_single": 5 if tier == "quick" else 6, "n_double": 4 if tier == "quick" else 5,
                          "preambles": PREAMBLES, "pattern_tail": 3 if tier == "quick" else 4},
                  replay_confirm=replay, assumptions=["functions are evaluated on plain candle lists"])
