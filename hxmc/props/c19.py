"""C19 reading state and converting input have no hidden side effects.
Engine E2: explicit-state search over programs  append* (accessor append*)*  on live Indicator / Hexital
objects with a deep snapshot of the whole object graph before and after every accessor; plus an exhaustive
encoding matrix (Candle / dict / list forms) with caller-container immutability."""
from __future__ import annotations

import copy
import time
from collections import deque
from datetime import datetime, timedelta

from .. import alphabet as A
from ..common import Report, deadline, Horizon, finish, merge_all, pmap, bind_repo, cnum
from ..configs import BY_LABEL, make
from ..drivers import fresh, raw_stream

WORDS = ["UDJFVLUD", "JDUUFLHV", "LFUJDVUZ"]


def deep(x, memo=None):
    """Canonical deep snapshot of an object graph (instance dicts recursively, aliasing recorded by position)."""
    if memo is None:
        memo = {}
    if x is None or isinstance(x, (bool, str)):
        return x
    if isinstance(x, (int, float)):
        return cnum(x)
    if isinstance(x, datetime):
        return ("T", x.isoformat())
    if isinstance(x, timedelta):
        return ("TD", x.total_seconds())
    if id(x) in memo:
        return ("ref", memo[id(x)])
    if isinstance(x, dict):
        memo[id(x)] = len(memo)
        return ("d",) + tuple(sorted((str(k), deep(v, memo)) for k, v in x.items()))
    if isinstance(x, (list, tuple)):
        memo[id(x)] = len(memo)
        return ("l",) + tuple(deep(v, memo) for v in x)
    if isinstance(x, (set, frozenset)):
        return ("s",) + tuple(sorted(repr(v) for v in x))
    if callable(x) and not hasattr(x, "__dict__"):
        return ("fn", getattr(x, "__name__", repr(x)))
    if hasattr(x, "__dict__"):
        memo[id(x)] = len(memo)
        if callable(x) and hasattr(x, "__name__") and not isinstance(x, type):
            return ("fn", x.__name__)
        return ("o", type(x).__name__) + tuple(sorted((k, deep(v, memo)) for k, v in vars(x).items()))
    return ("r", repr(x))


def indicator_accessors(ind):
    nm = ind.name
    acc = [
        ("str", lambda o: str(o)), ("repr", lambda o: repr(o)), ("name", lambda o: o.name), ("settings", lambda o: o.settings),
        ("has_reading", lambda o: o.has_reading), ("reading()", lambda o: o.reading()), ("reading(name,0)", lambda o: o.reading(nm, 0)),
        ("reading(close,-1)", lambda o: o.reading("close", -1)), ("prev_reading", lambda o: o.prev_reading()),
        ("as_list", lambda o: o.as_list()), ("as_list(close)", lambda o: o.as_list("close")), ("reading_count", lambda o: o.reading_count()),
        ("reading_period", lambda o: o.reading_period(2)), ("candles_sum", lambda o: o.candles_sum(2, "close")),
        ("read_candle", lambda o: o.read_candle(o.candles[-1]) if o.candles else None), ("prev_exists", lambda o: o.prev_exists()),
        ("candle_manager", lambda o: o.candle_manager), ("prior_calc", lambda o: o.prior_calc),
    ]
    return acc


def hexital_accessors(hx, names, tfs):
    n0 = names[0]
    acc = [
        ("candles()", lambda o: o.candles()), ("get_candles", lambda o: o.get_candles()), ("timeframes", lambda o: o.timeframes),
        ("indicators", lambda o: o.indicators), ("indicator(n)", lambda o: o.indicator(n0)), ("indicator_settings", lambda o: o.indicator_settings),
        ("has_reading", lambda o: o.has_reading(n0)), ("reading", lambda o: o.reading(n0)), ("reading(n,0)", lambda o: o.reading(n0, 0)),
        ("prev_reading", lambda o: o.prev_reading(n0)), ("reading_as_list", lambda o: o.reading_as_list(n0)),
        ("reading(missing)", lambda o: o.reading("nope")), ("reading_as_list(missing)", lambda o: o.reading_as_list("nope")),
        ("str(indicator)", lambda o: str(o.indicator(n0))), ("settings(indicator)", lambda o: o.indicator(n0).settings),
    ]
    for tf in tfs:
        acc.append((f"candles({tf})", lambda o, tf=tf: o.candles(tf)))
    for nm in names[1:]:
        acc.append((f"reading({nm})", lambda o, nm=nm: o.reading(nm)))
        acc.append((f"has_reading({nm})", lambda o, nm=nm: o.has_reading(nm)))
        acc.append((f"str(member:{names.index(nm)})", lambda o, nm=nm: str(o.indicator(nm))))
    return acc


def build(objspec, raw, state):
    """objspec: ('ind', label, tfc) | ('hex', [(label, mtf)...], hcfg)."""
    bind_repo()
    from hexital import Hexital
    k = {"empty": 0, "preloaded": 3, "calculated": 3, "added": 3}[state]
    if objspec[0] == "ind":
        label, tf = objspec[1], objspec[2]
        kw = {"timeframe": tf} if tf else {}
        if len(objspec) > 3 and objspec[3]:
            kw["candles_lifespan"] = timedelta(seconds=objspec[3])
        o = make(BY_LABEL[label], candles=fresh(raw[:k]), **kw)
        if state == "calculated":
            o.calculate()
        return o, k
    _, members, hkw = objspec
    inds = [make(BY_LABEL[l], **({"timeframe": t} if t else {})) for l, t in members]
    hk = dict(hkw)
    if "candles_lifespan" in hk:
        hk["candles_lifespan"] = timedelta(seconds=hk["candles_lifespan"])
    o = Hexital("h", fresh(raw[:k]), inds, **hk)
    if state in ("calculated", "added"):
        o.calculate()
    if state == "added":  # an indicator registered after the fact and not calculated yet: reading it must not calculate it
        o.add_indicator(make(BY_LABEL["EMA3"]))
    return o, k


OBJECTS = [
    ("ind", "SMA2", None), ("ind", "MACD232", None), ("ind", "ST2", None), ("ind", "STOCH222", "T2"), ("ind", "BBANDS2", None),
    ("ind", "doji", None), ("ind", "COUNTvol", None), ("ind", "ADX22", None), ("ind", "TSI2", None), ("ind", "highest2", None),
    ("hex", (("SMA2", None),), ()), ("hex", (("SMA2", None), ("EMA2", "T2")), ()),
    ("hex", (("MACD232", None), ("RSI2", "T2"), ("OBV", "T4")), ()),
    ("hex", (("ST2", "T2"), ("SMA2", None)), (("timeframe_fill", True),)),
    ("hex", (("EMA2", None), ("SMA2", "T2")), (("candlestick_type", "HA"),)),
    ("hex", (("BBANDS2", None),), (("timeframe", "T2"),)),
    ("ind", "EMA2", None, 180), ("ind", "MACD232", None, 120), ("ind", "SMA2", "T2", 240),
    ("hex", (("SMA2", None), ("RSI2", None)), (("candles_lifespan", 180),)),
    ("hex", (("EMA2", None), ("OBV", "T2")), (("candles_lifespan", 240),)),
]


def candle_view(obj):
    from ..common import canon_candles
    if hasattr(obj, "get_candles"):
        try:
            return tuple((k, canon_candles(v, with_clean=True)) for k, v in sorted(obj.get_candles().items()))
        except Exception as e:
            return ("raised", type(e).__name__)
    try:
        return canon_candles(obj.candles, with_clean=True)
    except Exception as e:
        return ("raised", type(e).__name__)


_ADDR = __import__("re").compile(r"0x[0-9a-fA-F]+")


def pub(r):
    """Public, copy-independent rendering of an accessor's return value (objects of the library are named, not opened)."""
    from ..common import canon_candle
    if r is None or isinstance(r, (bool, int, float)):
        return cnum(r)
    if isinstance(r, str):
        return _ADDR.sub("0x", r)
    if isinstance(r, (datetime, timedelta)):
        return deep(r)
    if isinstance(r, dict):
        return ("d",) + tuple(sorted((str(k), pub(v)) for k, v in r.items()))
    if isinstance(r, (list, tuple)):
        return ("l",) + tuple(pub(v) for v in r)
    if isinstance(r, (set, frozenset)):
        return ("s",) + tuple(sorted(repr(v) for v in r))
    if type(r).__name__ == "Candle":
        return ("candle", canon_candle(r, with_clean=True))
    if hasattr(r, "__dict__"):
        return ("obj", type(r).__name__, getattr(r, "name", None) if isinstance(getattr(r, "name", None), str) else None)
    return ("r", _ADDR.sub("0x", repr(r)))


def observe(obj, accs):
    """Everything a user can see: every candle of every timeframe (values, readings, raw values, tag) and the result of
    every accessor of the menu (evaluated on a private copy). Hidden state (a cache, a cursor) is deliberately NOT part of
    it: it matters only through what later calls return, which the continuation check below observes."""
    w = copy.deepcopy(obj)
    out = [candle_view(w)]
    for an, fn in accs:
        try:
            r = fn(w)
            out.append((an, pub(r)))
        except Exception as e:
            out.append((an, "raised", type(e).__name__))
    out.append(candle_view(w))
    return tuple(out)


def explore(item):
    tier, oi, state, word = item
    rep = Report()
    objspec = OBJECTS[oi]
    raw = raw_stream(word, "+", A.regular_gaps("reg", len(word), 120), "T2")
    depth = 5 if tier == "quick" else 10
    try:
        obj, pos = build(objspec, raw, state)
    except Exception as e:
        rep.violation(f"C19|build-raised|{objspec[0]}", {"obj": objspec, "state": state, "word": word, "path": [], "oracle": "raised", "error": repr(e)})
        return rep
    if objspec[0] == "ind":
        accs = indicator_accessors(obj)
    else:
        names = list(obj.indicators)
        if state == "added":
            names = ["EMA_3"] + [n for n in names if n != "EMA_3"]
        accs = hexital_accessors(obj, names, [t for _, t in objspec[1] if t])
    seen = {deep(obj): ()}
    frontier = deque([(obj, pos, (), 0)])
    label = objspec[1] if objspec[0] == "ind" else "Hexital"
    while frontier:
        o, p, path, d = frontier.popleft()
        base_obs = {}

        def cont(x, k):
            """x after k further one-candle appends (k = 0, 1, 2), observed."""
            y = copy.deepcopy(x)
            try:
                for j in range(k):
                    y.append(fresh(raw[p + j:p + j + 1]))
            except Exception as e:
                return ("append-raised", type(e).__name__)
            return observe(y, accs)

        ks = [k for k in (0, 1, 2) if p + k <= len(raw)]
        for k in ks:
            base_obs[k] = cont(o, k)
        for an, fn in accs:
            w = copy.deepcopy(o)
            raised = None
            try:
                with deadline(3):
                    fn(w)
            except Horizon:
                raise
            except Exception as e:
                raised = type(e).__name__
                rep.inc("accessor_raised_" + an)
            rep.inc("executions", 1 + len(ks))
            rep.inc("transitions")
            for k in ks:
                if cont(w, k) != base_obs[k]:
                    what = "accessor-changed-state" if k == 0 else "unusable-after-accessor"
                    rep.violation(f"C19|{what}|{objspec[0]}|{an}",
                                  {"obj": objspec, "state": state, "word": word, "path": path + (("acc", an),) + (("append", 1),) * k,
                                   "oracle": "accessor" if k == 0 else "usable", "raised": raised, "after_appends": k})
                    break
        if d >= depth or p >= len(raw):
            continue
        for k in (1, 2):
            if p + k > len(raw):
                continue
            nxt = copy.deepcopy(o)
            try:
                nxt.append(fresh(raw[p:p + k]) if k > 1 else fresh(raw[p:p + 1])[0])
            except Exception as e:
                rep.inc("append_raised")
                continue
            rep.inc("transitions")
            c = deep(nxt)
            if c not in seen:
                seen[c] = path + (("append", k),)
                frontier.append((nxt, p + k, path + (("append", k),), d + 1))
    rep.inc("states", len(seen))
    for c in seen:
        rep.add("nontrivial", c)
    rep.sample({"object": objspec, "initial": state, "stream": word, "states": len(seen), "accessors": [a for a, _ in accs]})
    return rep


# ------------------------------------------------------------------ encodings
def encodings(r):
    """Equivalent encodings of one candle tuple (o,h,l,c,v,iso). Returns (name, factory) pairs; each factory builds a fresh
    caller-owned object."""
    o, h, l, c, v, iso = r
    ts = datetime.fromisoformat(iso)
    return [
        ("Candle", lambda: fresh([r])[0]),
        ("dict", lambda: {"open": o, "high": h, "low": l, "close": c, "volume": v, "timestamp": ts}),
        ("dict-upper", lambda: {"Open": o, "High": h, "Low": l, "Close": c, "Volume": v, "Timestamp": ts}),
        ("dict-isotime", lambda: {"open": o, "high": h, "low": l, "close": c, "volume": v, "timestamp": iso}),
        ("list-trailing-ts", lambda: [o, h, l, c, v, ts]),
        ("[Candle]", lambda: fresh([r])),
        ("[dict]", lambda: [{"open": o, "high": h, "low": l, "close": c, "volume": v, "timestamp": ts}]),
        ("[list-trailing-ts]", lambda: [[o, h, l, c, v, ts]]),
        ("[list-leading-ts]", lambda: [[ts, o, h, l, c, v]]),
    ]


def view(obj):
    """Observable result: every manager's candles with readings."""
    from ..common import canon_candles
    if hasattr(obj, "get_candles"):
        return tuple((k, canon_candles(v, with_clean=True)) for k, v in sorted(obj.get_candles().items()))
    return canon_candles(obj.candles, with_clean=True)


FINE = {"tick": 0.123457, "offset": 0.000013, "base": A._BASES[0], "rot": 0, "volscale": 0.1}  # six-decimal prices, fractional volumes


def enc_raw(word, fine):
    return raw_stream(word, "+", A.regular_gaps("reg", len(word), 120), "T2", var=FINE if fine else None)


def explore_enc(item):
    tier, oi, word = item[:3]
    fine = len(item) > 3 and item[3]
    rep = Report()
    objspec = OBJECTS[oi]
    raw = enc_raw(word, fine)
    n = 4 if tier == "quick" else 5
    import itertools
    encs = [e[0] for e in encodings(raw[0])]
    base = None
    # every assignment of an encoding to each of the first two appends; the remaining appends all use one encoding
    for combo in itertools.product(range(len(encs)), repeat=2):
        for rest in ((0, 1, 4) if tier == "quick" else range(len(encs))):
            plan = list(combo) + [rest] * (n - 2)
            try:
                obj, _ = build(objspec, raw, "empty")
                for i, ei in enumerate(plan):
                    name, fac = encodings(raw[i])[ei]
                    arg = fac()
                    keep = copy.deepcopy(arg) if not name.endswith("Candle") and name != "[Candle]" else None
                    obj.append(arg)
                    if keep is not None and arg != keep:
                        rep.violation(f"C19|caller-container-mutated|{objspec[0]}|{name}",
                                      {"obj": objspec, "word": word, "fine": fine, "plan": [encs[j] for j in plan], "oracle": "container", "at": i})
                v = view(obj)
            except Exception as e:
                rep.inc("executions")
                rep.violation(f"C19|encoding-raised|{objspec[0]}|{type(e).__name__}",
                              {"obj": objspec, "word": word, "fine": fine, "plan": [encs[j] for j in plan], "oracle": "enc-raised", "error": repr(e)})
                continue
            rep.inc("executions")
            rep.inc("transitions", n)
            if base is None:
                base = v  # plan (0,0,0..) = all Candle objects
            if v != base:
                bad = sorted({encs[j] for j in plan} - {"Candle"})
                rep.violation(f"C19|encoding-differs|{objspec[0]}|{bad[0] if len(bad) == 1 else 'mixed'}",
                              {"obj": objspec, "word": word, "fine": fine, "plan": [encs[j] for j in plan], "oracle": "encoding"})
            else:
                rep.add("nontrivial", (oi, fine, tuple(plan)))
            rep.add("states_enc", v)
    # batches: two candles in ONE append, every pair of row encodings (lists with leading / trailing timestamp, dicts, Candles)
    def row(r, kind):
        o, h, l, c, v, iso = r
        ts = datetime.fromisoformat(iso)
        return {"lead": [ts, o, h, l, c, v], "trail": [o, h, l, c, v, ts], "dict": {"open": o, "high": h, "low": l, "close": c, "volume": v, "timestamp": ts},
                "Dict": {"Open": o, "High": h, "Low": l, "Close": c, "Volume": v, "Timestamp": ts}, "candle": fresh([r])[0]}[kind]

    homog = {"lead": "list", "trail": "list", "dict": "dict", "Dict": "dict", "candle": "candle"}
    for k1 in ("lead", "trail", "dict", "Dict", "candle"):
        for k2 in ("lead", "trail", "dict", "Dict", "candle"):
            if homog[k1] != homog[k2]:
                continue  # append dispatches on the first element's type: a batch is a list of one kind of thing
            try:
                obj, _ = build(objspec, raw, "empty")
                batch = [row(raw[0], k1), row(raw[1], k2)]
                keep = copy.deepcopy(batch) if homog[k1] != "candle" else None
                obj.append(batch)
                if keep is not None and batch != keep:
                    rep.violation(f"C19|caller-container-mutated|{objspec[0]}|batch-{homog[k1]}",
                                  {"obj": objspec, "word": word, "fine": fine, "plan": ["batch", k1, k2, n], "oracle": "container", "at": 0})
                for i in range(2, n):
                    obj.append(fresh([raw[i]])[0])
                v = view(obj)
            except Exception as e:
                rep.inc("executions")
                rep.violation(f"C19|encoding-raised|{objspec[0]}|{type(e).__name__}",
                              {"obj": objspec, "word": word, "fine": fine, "plan": ["batch", k1, k2, n], "oracle": "enc-raised", "error": repr(e)})
                continue
            rep.inc("executions")
            rep.inc("transitions", n - 1)
            if v != base:
                rep.violation(f"C19|encoding-differs|{objspec[0]}|batch-{k1}+{k2}", {"obj": objspec, "word": word, "fine": fine, "plan": ["batch", k1, k2, n], "oracle": "encoding"})
            else:
                rep.add("nontrivial", (oi, fine, "batch", k1, k2))
    rep.sample({"object": objspec, "encodings": encs, "stream": word})
    return rep


# ------------------------------------------------------------------ delivery to every timeframe
DELIVERY = [
    ((("SMA2", "T2"), ("EMA2", "T4")), ()),
    ((("SMA2", None), ("EMA2", "T2"), ("RSI2", "T2")), ()),
    ((("OBV", "T4"), ("SMA2", None)), (("timeframe", "T2"),)),
    ((("SMA2", "T2"), ("EMA2", "T4")), (("timeframe_fill", True),)),
    ((("EMA2", "T4"),), (("timeframe", "T2"), ("timeframe_fill", True))),
]
DELIVERY_GAPS = "hth2hpxhth5h"


def delivery_raw(word):
    w = (word * 2)[:12]
    return raw_stream(w, "+", "".join(DELIVERY_GAPS[i % len(DELIVERY_GAPS)] for i in range(len(w) - 1)), "T2")


def delivery_apply(hx, op, raw, pos, removed):
    if op[0] == "app":
        hx.append(fresh(raw[pos:pos + op[1]]) if op[1] > 1 else fresh(raw[pos:pos + 1])[0])
        return pos + op[1]
    if op[0] == "rm":
        removed[op[1]] = True
        hx.remove_indicator(op[1])
        return pos
    label, tf = op[1], op[2]
    hx.add_indicator(make(BY_LABEL[label], **({"timeframe": tf} if tf else {})))
    removed.pop(op[3], None)
    return pos


def delivery_bad(hx, hkw, raw, pos):
    """Every timeframe the Hexital lists must hold exactly the reference resampling of everything appended so far."""
    from ..ref import cm as R
    from .c03 import view as cview, rview
    hk = dict(hkw)
    for key, cands in sorted(hx.get_candles().items()):
        tf = hk.get("timeframe") if key == "default" else key
        want = list(raw[:pos])
        if tf:
            want = R.collapse(want, A.tf_seconds(tf))
            if hk.get("timeframe_fill"):
                want = R.fill(want, A.tf_seconds(tf))
        if cview(cands) != rview(want):
            return key
    return None


def explore_delivery(item):
    tier, di, word = item
    members, hkw = DELIVERY[di]
    rep = Report()
    depth = 5 if tier == "quick" else 7
    raw = delivery_raw(word)
    bind_repo()
    from hexital import Hexital

    def start():
        inds = [make(BY_LABEL[l], **({"timeframe": t} if t else {})) for l, t in members]
        return Hexital("h", [], inds, **dict(hkw))

    names = [(make(BY_LABEL[l], **({"timeframe": t} if t else {})).name, l, t) for l, t in members]
    seen = set()
    frontier = deque([()])
    while frontier:
        path = frontier.popleft()
        hx, pos, removed = start(), 0, {}
        try:
            for op in path:
                pos = delivery_apply(hx, op, raw, pos, removed)
        except Exception as e:
            rep.inc("executions")
            rep.violation(f"C19|delivery-raised|{di}|{type(e).__name__}", {"delivery": di, "word": word, "path": path, "oracle": "delivery", "error": repr(e)})
            continue
        rep.inc("executions")
        rep.inc("transitions", len(path))
        key = deep((hx, pos))
        if key in seen:
            continue
        seen.add(key)
        rep.inc("states")
        bad = delivery_bad(hx, hkw, raw, pos)
        if bad is not None:
            rep.violation(f"C19|timeframe-not-fed|{di}|{'after-remove' if any(o[0] == 'rm' for o in path) else 'plain'}",
                          {"delivery": di, "word": word, "path": path, "oracle": "delivery", "timeframe": bad})
            continue
        if path:
            rep.add("nontrivial", ("delivery", di, path))
        if len(path) >= depth:
            continue
        ops = [("app", 1), ("app", 2)] if pos + 2 <= len(raw) else []
        for nm, l, t in names:
            ops.append(("add", l, t, nm) if nm in removed else ("rm", nm))
        for op in ops:
            frontier.append(path + (op,))
    rep.sample({"delivery": DELIVERY[di], "stream": raw, "depth": depth})
    return rep


def replay_delivery(case):
    bind_repo()
    from hexital import Hexital
    members, hkw = DELIVERY[case["delivery"]]
    raw = delivery_raw(case["word"])
    hx = Hexital("h", [], [make(BY_LABEL[l], **({"timeframe": t} if t else {})) for l, t in members], **dict(hkw))
    pos, removed = 0, {}
    try:
        for op in case["path"]:
            pos = delivery_apply(hx, tuple(op), raw, pos, removed)
    except Exception:
        return True
    return delivery_bad(hx, hkw, raw, pos) is not None


def replay(case):
    bind_repo()
    if case.get("oracle") == "delivery":
        return replay_delivery(case)
    objspec = tuple(case["obj"])
    objspec = (objspec[0], objspec[1] if objspec[0] == "ind" else tuple(tuple(m) for m in objspec[1]),
               objspec[2] if objspec[0] == "ind" else tuple(tuple(x) for x in objspec[2])) + tuple(objspec[3:])
    raw = enc_raw(case["word"], case.get("fine", False))
    if case["oracle"] in ("accessor", "usable"):
        obj, pos = build(objspec, raw, case["state"])
        hn = list(obj.indicators) if objspec[0] != "ind" else []
        if case["state"] == "added":
            hn = ["EMA_3"] + [n for n in hn if n != "EMA_3"]
        accs = indicator_accessors(obj) if objspec[0] == "ind" else hexital_accessors(obj, hn, [t for _, t in objspec[1] if t])
        amap = dict(accs)
        steps = [tuple(x) for x in case["path"]]
        k = case.get("after_appends", 0)
        pre = steps[:len(steps) - k - 1]
        acc = steps[len(steps) - k - 1]
        try:
            for st in pre:
                obj.append(fresh(raw[pos:pos + st[1]]) if st[1] > 1 else fresh(raw[pos:pos + 1])[0])
                pos += st[1]
        except Exception:
            return True
        ref = copy.deepcopy(obj)
        try:
            amap[acc[1]](obj)
        except Exception:
            pass
        for x in (obj, ref):
            try:
                for j in range(k):
                    x.append(fresh(raw[pos + j:pos + j + 1]))
            except Exception:
                pass
        return observe(obj, accs) != observe(ref, accs)
    # encoding cases
    encs = [e[0] for e in encodings(raw[0])]
    if case["plan"] and case["plan"][0] == "batch":
        def row(r, kind):
            o, h, l, c, v, iso = r
            ts = datetime.fromisoformat(iso)
            return {"lead": [ts, o, h, l, c, v], "trail": [o, h, l, c, v, ts], "dict": {"open": o, "high": h, "low": l, "close": c, "volume": v, "timestamp": ts},
                    "Dict": {"Open": o, "High": h, "Low": l, "Close": c, "Volume": v, "Timestamp": ts}, "candle": fresh([r])[0]}[kind]
        n = case["plan"][3] if len(case["plan"]) > 3 else 4
        try:
            ref, _ = build(objspec, raw, "empty")
            for i in range(n):
                ref.append(fresh([raw[i]])[0])
            obj, _ = build(objspec, raw, "empty")
            batch = [row(raw[0], case["plan"][1]), row(raw[1], case["plan"][2])]
            keep = copy.deepcopy(batch) if case["plan"][1] != "candle" else None
            obj.append(batch)
            if keep is not None and batch != keep:
                return True
            for i in range(2, n):
                obj.append(fresh([raw[i]])[0])
            return view(obj) != view(ref)
        except Exception:
            return True
    plan = [encs.index(p) for p in case["plan"]]
    try:
        ref, _ = build(objspec, raw, "empty")
        for i in range(len(plan)):
            ref.append(fresh([raw[i]])[0])
        obj, _ = build(objspec, raw, "empty")
        for i, ei in enumerate(plan):
            name, fac = encodings(raw[i])[ei]
            arg = fac()
            keep = copy.deepcopy(arg) if "Candle" not in name else None
            obj.append(arg)
            if keep is not None and arg != keep:
                return True
        return view(obj) != view(ref)
    except Exception:
        return True


def main(prop, tier):
    t0 = time.time()
    var = A.variant()
    word = WORDS[var["rot"] % len(WORDS)]
    if tier != "quick":  # a longer stream, so that the deeper search is not cut short by running out of candles
        word = (word + word[::-1])[:14]
    items = [(tier, oi, st, word) for oi in range(len(OBJECTS)) for st in ("empty", "preloaded", "calculated")]
    items += [(tier, oi, "added", word) for oi in range(len(OBJECTS)) if OBJECTS[oi][0] == "hex"]
    reps = pmap(explore, items)
    reps += pmap(explore_enc, [(tier, oi, word, fine) for oi in range(len(OBJECTS)) for fine in (False, True)])
    reps += pmap(explore_delivery, [(tier, di, word) for di in range(len(DELIVERY))])
    rep = merge_all(reps)
    rule = ("explicit-state search: from 3 initial states (Hexitals: 4, incl. 'an indicator added but not yet calculated') of every object of the pool (10 indicators, 6 Hexitals with 1-3 timeframes, fill, HA) "
            "every accessor of the read-only menu is applied in every reachable state (appends of 1|2 candles to the depth bound, states "
            "deduplicated on a deep snapshot of the whole object graph); the object with the accessor applied must be observationally equal "
            "(all candles of all timeframes + the results of all accessors) to the object without it, immediately and after 1 and 2 further appends; encoding matrix: every pair of encodings for the first two appends x encodings of the rest, all 9 encodings, result "
            "equal to the all-Candle run and caller containers unchanged, on the integer grid and on a six-decimal / fractional-volume scale; delivery: breadth-first search over {append 1|2, remove_indicator, "
            "add it back} on Hexitals with several member timeframes over a stream with gaps - in every reachable state every timeframe the Hexital "
            "lists holds exactly the reference resampling of everything appended so far; non-trivial = distinct reachable deep states + distinct agreeing encoding plans")
    return finish(prop, tier, rep, t0, rule=rule, bounds={"depth": 5 if tier == "quick" else 10, "delivery_depth": 5 if tier == "quick" else 7, "objects": OBJECTS, "stream": word, "delivery": DELIVERY, "delivery_gaps": DELIVERY_GAPS},
                  replay_confirm=replay,
                  assumptions=["an accessor that raises is not a violation if the observable state is unchanged and the object stays usable",
                               "hidden state (caches) is not compared directly, only through what later calls return (2-step continuation)",
                               "single list rows with a leading timestamp are rejected by append's dispatcher and are outside the alphabet"])
