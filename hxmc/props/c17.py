"""C17 movement, candle-shape and pattern predicates mean what they document.
Exhaustive enumeration of reading lists (movements), of the candle grid (geometry) and of histories x
constructed witnesses / single-clause counter-witnesses (patterns) against reference predicates written
from the docstrings; invariance under scaling and shifting."""
from __future__ import annotations

import itertools
import time
from datetime import datetime, timedelta

from ..common import Report, finish, merge_all, pmap, bind_repo
from .c16 import VALS, mk, call, BASE

NUM = (int, float)


# ------------------------------------------------------------------ reference movement predicates
def defined(v):
    return isinstance(v, NUM) and not isinstance(v, bool)


def W(r, i, L):
    return [v for v in r[max(0, i - L):i] if defined(v)]


def Wi(r, i, L):
    return [v for v in r[max(0, i - L):i + 1] if defined(v)]


def ref_above(a, b, i):
    return a[i] is not None and b[i] is not None and a[i] > b[i]


def ref_below(a, b, i):
    return a[i] is not None and b[i] is not None and a[i] < b[i]


def ref_rising(r, i, L):
    w = W(r, i, L)
    return defined(r[i]) and bool(w) and all(v < r[i] for v in w)


def ref_falling(r, i, L):
    w = W(r, i, L)
    return defined(r[i]) and bool(w) and all(v > r[i] for v in w)


def ref_mean_rising(r, i, L):
    w = W(r, i, L)
    return defined(r[i]) and bool(w) and r[i] > sum(w) / len(w)


def ref_mean_falling(r, i, L):
    w = W(r, i, L)
    return defined(r[i]) and bool(w) and r[i] < sum(w) / len(w)


def ref_highest(r, i, L):
    w = Wi(r, i, L)
    return max(w) if w else None


def ref_lowest(r, i, L):
    w = Wi(r, i, L)
    return min(w) if w else None


def ref_value_range(r, i, L):
    w = Wi(r, i, L)
    return (max(w) - min(w)) if (len(w) >= 2 and L >= 2) else None


def ref_bar(r, i, L, conv, pick):
    """offset of the most recent extreme in a window of L (conv 0) or L+1 (conv 1) candles ending at i."""
    n = L + conv
    idx = [j for j in range(i, max(i - n, -1), -1) if r[j] is not None]
    if not idx:
        return "NA"
    ext = pick(r[j] for j in idx)
    return min(i - j for j in idx if r[j] == ext)


def ref_crossover(a, b, i, L):
    return any(ref_above(a, b, j) and ref_below(a, b, j - 1) for j in range(i, max(i - L, 0), -1))


def ref_crossunder(a, b, i, L):
    return any(ref_below(a, b, j) and ref_above(a, b, j - 1) for j in range(i, max(i - L, 0), -1))


def eq(got, want):
    if isinstance(want, bool) or want is None:
        return got is want or (got == want and isinstance(got, bool))
    return got == want


ZVALS = [None, 0, 1, 2, 3]


def explore_mov(item):
    tier, first = item
    if isinstance(first, tuple):
        return explore_mov_zero(tier, first[1])
    bind_repo()
    from hexital.analysis import movement as M
    rep = Report()
    n = 5 if tier == "quick" else 6
    lengths = (1, 2, 3, 4, 7)
    partners = [(2,) * n, tuple((j % 3) + 1 for j in range(n)), (None, 3, 1, None, 2, 2)[:n]]
    singles = [("rising", ref_rising), ("falling", ref_falling), ("mean_rising", ref_mean_rising), ("mean_falling", ref_mean_falling),
               ("highest", ref_highest), ("lowest", ref_lowest), ("value_range", ref_value_range)]
    for tail in itertools.product(VALS, repeat=n - 1):
        a = (first,) + tail
        cands = mk(a)
        for i in range(1, n):
            for L in lengths:
                for name, ref in singles:
                    got = call(getattr(M, name), cands, "A", L, i)
                    want = ref(list(a), i, L)
                    rep.inc("executions")
                    if got[0] != "ok" or not eq(got[1], want):
                        rep.violation(f"C17|{name}|!=reference", {"fn": name, "A": a, "index": i, "length": L, "got": got[1], "want": want})
                for name, pick in (("highestbar", max), ("lowestbar", min)):
                    got = call(getattr(M, name), cands, "A", L, i)
                    rep.inc("executions")
                    w0, w1 = ref_bar(list(a), i, L, 0, pick), ref_bar(list(a), i, L, 1, pick)
                    if w0 == "NA":
                        rep.inc("bar_no_values_skipped")
                        continue
                    ok0 = got[0] == "ok" and got[1] == w0
                    ok1 = got[0] == "ok" and w1 != "NA" and got[1] == w1
                    for conv, ok, w in ((0, ok0, w0), (1, ok1, w1)):
                        if not ok:
                            rep.inc(f"{name}_conv{conv}_fail")
                            rep.notes.setdefault(f"{name}_conv{conv}_case", {"fn": name, "A": a, "index": i, "length": L, "got": got[1], "want": w, "conv": conv})
        for b in partners:
            cands2 = mk(a, b)
            for i in range(1, n):
                for name, ref in (("above", ref_above), ("below", ref_below)):
                    got = call(getattr(M, name), cands2, "A", "B", i)
                    want = ref(list(a), list(b), i)
                    rep.inc("executions")
                    if got[0] != "ok" or not eq(got[1], want):
                        rep.violation(f"C17|{name}|!=reference", {"fn": name, "A": a, "B": b, "index": i, "got": got[1], "want": want})
                for L in (1, 2, 3, 6):
                    for name, ref in (("crossover", ref_crossover), ("crossunder", ref_crossunder)):
                        got = call(getattr(M, name), cands2, "A", "B", L, i)
                        want = ref(list(a), list(b), i, L)
                        rep.inc("executions")
                        if got[0] != "ok" or not eq(got[1], want):
                            rep.violation(f"C17|{name}|!=reference", {"fn": name, "A": a, "B": b, "index": i, "length": L, "got": got[1], "want": want})
        # scaling / shifting the readings must not change a boolean predicate
        for (k, s) in ((4, 0), (0.5, 0), (1, 5), (1000, 0), (1, 1000)):
            a2 = tuple(None if v is None else v * k + s for v in a)
            c2 = mk_vals(a2, a)
            for i in range(1, n):
                for name in ("rising", "falling", "mean_rising", "mean_falling"):
                    g1 = call(getattr(M, name), cands, "A", 2, i)
                    g2 = call(getattr(M, name), c2, "A", 2, i)
                    rep.inc("executions")
                    if g1 != g2:
                        rep.violation(f"C17|{name}|scale-variant", {"fn": name, "A": a, "index": i, "scale": k, "shift": s, "got": g2[1], "want": g1[1]})
        rep.inc("transitions", 1)
        rep.add("states", a)
        if any(v is not None for v in a):
            rep.add("nontrivial", ("mov", a))
    rep.sample({"family": "movement", "A": a, "partners": partners})
    return rep


def zero_cands(a, mode):
    from hexital.core.candle import Candle
    if mode == "reading":
        cands = [Candle(10, 12, 9, 11, 5, timestamp=BASE + timedelta(minutes=i), indicators=({} if v is None else {"A": v})) for i, v in enumerate(a)]
        name_ = "A"
    else:
        cands = [Candle(10, 12, 9, 11, v, timestamp=BASE + timedelta(minutes=i)) for i, v in enumerate(a)]
        name_ = "volume"
    for c in cands:
        c.indicators["B"] = 1
    return cands, name_


def explore_mov_zero(tier, first):
    """Readings that are legitimately 0 (and 0-valued candle attributes such as volume) are values, not missing."""
    from hexital.analysis import movement as M
    from hexital.core.candle import Candle
    rep = Report()
    n = 4
    singles = [("rising", ref_rising), ("falling", ref_falling), ("mean_rising", ref_mean_rising), ("mean_falling", ref_mean_falling),
               ("highest", ref_highest), ("lowest", ref_lowest), ("value_range", ref_value_range)]
    for tail in itertools.product(ZVALS, repeat=n - 1):
        a = (first,) + tail
        for mode in ("reading", "volume"):
            if mode == "volume" and any(v is None for v in a):
                continue
            cands, name_ = zero_cands(a, mode)
            b = tuple(1 for _ in a)
            for i in range(1, n):
                for L in (1, 2, 3):
                    for name, ref in singles:
                        got = call(getattr(M, name), cands, name_, L, i)
                        want = ref(list(a), i, L)
                        rep.inc("executions")
                        if got[0] != "ok" or not eq(got[1], want):
                            rep.violation(f"C17|{name}|!=reference-zero-{mode}", {"fn": name, "A": a, "index": i, "length": L, "got": got[1], "want": want, "mode": mode})
                    for name, pick in (("highestbar", max), ("lowestbar", min)):
                        got = call(getattr(M, name), cands, name_, L, i)
                        w0, w1 = ref_bar(list(a), i, L, 0, pick), ref_bar(list(a), i, L, 1, pick)
                        rep.inc("executions")
                        if w0 != "NA" and not (got[0] == "ok" and got[1] in (w0, w1)):
                            rep.violation(f"C17|{name}|!=reference-zero-{mode}", {"fn": name, "A": a, "index": i, "length": L, "got": got[1], "want": w0, "mode": mode})
                for name, ref in (("above", ref_above), ("below", ref_below)):
                    got = call(getattr(M, name), cands, name_, "B", i)
                    want = ref(list(a), list(b), i)
                    rep.inc("executions")
                    if got[0] != "ok" or not eq(got[1], want):
                        rep.violation(f"C17|{name}|!=reference-zero-{mode}", {"fn": name, "A": a, "B": b, "index": i, "got": got[1], "want": want, "mode": mode})
                for name, ref in (("crossover", ref_crossover), ("crossunder", ref_crossunder)):
                    got = call(getattr(M, name), cands, name_, "B", 2, i)
                    want = ref(list(a), list(b), i, 2)
                    rep.inc("executions")
                    if got[0] != "ok" or not eq(got[1], want):
                        rep.violation(f"C17|{name}|!=reference-zero-{mode}", {"fn": name, "A": a, "B": b, "index": i, "length": 2, "got": got[1], "want": want, "mode": mode})
        rep.add("states", ("z",) + a)
        rep.add("nontrivial", ("movz", a))
        rep.inc("transitions")
    rep.sample({"family": "movement-with-zero-values", "A": a})
    return rep


def mk_vals(vals, shape_from):
    """Candles with readings `vals` but geometry taken from `shape_from` (so only the readings are scaled)."""
    c = mk(shape_from)
    for cd, v in zip(c, vals):
        cd.indicators.pop("A", None)
        if v is not None:
            cd.indicators["A"] = v
    return c


# ------------------------------------------------------------------ geometry
def explore_geo(item):
    bind_repo()
    from hexital.core.candle import Candle
    from hexital.analysis import movement as M
    rep = Report()
    g = range(1, 6)
    for o, h, l, c in itertools.product(g, repeat=4):
        if not (l <= o <= h and l <= c <= h):
            continue
        for k, s in ((1, 0), (0.25, 0), (1, 100)):
            O, H, L_, C = (x * k + s for x in (o, h, l, c))
            cd = Candle(O, H, L_, C, 1)
            want = {"realbody": abs(O - C), "shadow_upper": H - max(O, C), "shadow_lower": min(O, C) - L_, "high_low": H - L_,
                    "positive": C > O, "negative": C < O}
            rep.inc("executions")
            for f, w in want.items():
                got = getattr(cd, f)
                if got != w:
                    rep.violation(f"C17|geometry|{f}", {"fn": f, "candle": (O, H, L_, C), "got": got, "want": w})
            if M.positive(cd) != want["positive"] or M.negative(cd) != want["negative"] or M.positive([cd]) != want["positive"] \
                    or M.negative([cd, cd], 1) != want["negative"]:
                rep.violation("C17|geometry|movement.positive/negative", {"fn": "positive/negative", "candle": (O, H, L_, C)})
            # geometry is a function of the candle's CURRENT prices: mutate in place (swap open/close, as a merge or a
            # conversion would change them) and read again
            cd.high, cd.close = H + k, O  # raise the high, flatten the body (still well-formed)
            want2 = {"realbody": 0, "shadow_upper": (H + k) - O, "shadow_lower": O - L_, "high_low": (H + k) - L_,
                     "positive": False, "negative": False}
            for f, w in want2.items():
                if getattr(cd, f) != w:
                    rep.violation(f"C17|geometry-after-mutation|{f}", {"fn": f, "candle": (O, H, L_, C), "got": getattr(cd, f), "want": w})
            other = Candle(O, H + k, L_, C, 2)
            m = Candle(O, H, L_, C, 1)
            _ = (m.realbody, m.shadow_upper, m.shadow_lower, m.high_low)
            m.merge(other)
            if m.high_low != (H + k) - L_ or m.shadow_upper != (H + k) - max(O, C):
                rep.violation("C17|geometry-after-merge|high_low", {"fn": "merge", "candle": (O, H, L_, C), "got": m.high_low, "want": (H + k) - L_})
            # ... and after a candlestick conversion (Heikin-Ashi rewrites all four prices of the stored candles)
            from hexital.indicators import EMA
            ts = [datetime(2024, 3, 4, 0, j) for j in range(3)]
            hist = [Candle(3 * k + s, 4 * k + s, 2 * k + s, 3.5 * k + s, 1, timestamp=ts[0]), Candle(O, H, L_, C, 1, timestamp=ts[1])]
            _ = [(x.realbody, x.positive) for x in hist]
            ind = EMA(period=2, candles=hist, candlestick_type="HA")
            ind.append(Candle(C, H, L_, O, 1, timestamp=ts[2]))
            rep.inc("executions")
            for j, x in enumerate(ind.candles):
                w = {"realbody": abs(x.open - x.close), "shadow_upper": x.high - max(x.open, x.close), "shadow_lower": min(x.open, x.close) - x.low,
                     "high_low": x.high - x.low, "positive": x.close > x.open, "negative": x.close < x.open}
                for f, wv in w.items():
                    if getattr(x, f) != wv:
                        rep.violation(f"C17|geometry-after-conversion|{f}", {"fn": f, "candle": (O, H, L_, C), "index": j, "got": getattr(x, f), "want": wv})
                if M.positive(x) != w["positive"] or M.negative(ind.candles, j) != w["negative"]:
                    rep.violation("C17|geometry-after-conversion|movement.positive/negative", {"fn": "positive/negative", "candle": (O, H, L_, C), "index": j})
            rep.add("states", (O, H, L_, C))
            rep.add("nontrivial", ("geo", O, H, L_, C))
    rep.inc("transitions", 1)
    rep.sample({"family": "geometry", "grid": "{1..5}^4 well-formed, x{1,0.25} +{0,100}"})
    return rep


# ------------------------------------------------------------------ patterns
HSH = {"U": (10, 12, 9, 11), "D": (11, 11, 8, 9), "J": (9, 14, 9, 13), "L": (12, 13, 6, 7), "S": (10, 10.3, 9.9, 10.1)}


def feats(c):
    o, h, l, cl = c
    return {"body": abs(o - cl), "up": h - max(o, cl), "lo": min(o, cl) - l, "rng": h - l, "top": max(o, cl), "bot": min(o, cl),
            "pos": cl > o, "neg": cl < o, "low": l}


def avgs(cs, i, n, key):
    """both averaging conventions: the n candles before i (TA-Lib) and the last n including i (code)."""
    a = [feats(c)[key] for c in cs[max(0, i - n):i]]
    b = [feats(c)[key] for c in cs[max(0, i - n + 1):i + 1]]
    return (sum(a) / n, sum(b) / n)


def decide(clauses):
    """clauses: list of (holds_with_margin_under_both, fails_with_margin_under_both). -> True / False / None"""
    if all(h for h, f in clauses):
        return True
    if any(f for h, f in clauses):
        return False
    return None


def lt(x, thr_pair, m=2.0):
    """clause x < thr: (clearly holds under both conventions, clearly fails under both)."""
    return (all(x * m <= t for t in thr_pair) and all(t > 0 for t in thr_pair), all(x >= t * m for t in thr_pair) and x > 0)


def gt(x, thr_pair, m=2.0):
    return (all(x >= t * m for t in thr_pair) and x > 0, all(x * m <= t for t in thr_pair))


def ref_pattern(name, cs, i):
    f, p = feats(cs[i]), feats(cs[i - 1])
    rng = avgs(cs, i, 10, "rng")
    body = avgs(cs, i, 10, "body")
    tick = min(rng) * 0.1
    if name == "doji":
        return decide([lt(f["body"], [0.1 * r for r in rng])])
    if name == "dojistar":
        pbody = avgs(cs, i - 1, 10, "body")
        up_gap, dn_gap = f["bot"] - p["top"], p["bot"] - f["top"]
        gap_ok = (p["pos"] and up_gap >= tick and up_gap > 0) or (p["neg"] and dn_gap >= tick and dn_gap > 0)
        gap_bad = not ((p["pos"] and up_gap > -tick) or (p["neg"] and dn_gap > -tick))
        return decide([gt(p["body"], pbody), lt(f["body"], [0.1 * r for r in rng]), (gap_ok, gap_bad)])
    if name == "hammer":
        near = avgs(cs, i - 1, 5, "rng")
        d = f["bot"] - p["low"]
        near_ok = all(d <= 0.2 * t / 2 for t in near)
        near_bad = all(d >= 0.2 * t * 2 for t in near) and d > 0
        return decide([lt(f["body"], body), gt(f["lo"], (f["body"], f["body"])), lt(f["up"], [0.1 * r for r in rng]), (near_ok, near_bad)])
    if name == "inv_hammer":
        dn_gap = p["bot"] - f["top"]
        return decide([lt(f["body"], body), gt(f["up"], (f["body"], f["body"])), lt(f["lo"], [0.1 * r for r in rng]),
                       (dn_gap >= tick and dn_gap > 0, dn_gap <= -tick)])
    raise KeyError(name)


def constructions(hist):
    """(pattern, label, candles) lists built from a 10-candle history: witnesses and single-clause counter-witnesses."""
    last = hist[-1]
    pl = feats(last)
    out = []
    x = last[3]
    out.append(("doji", "witness", hist + [(x, x + 1, x - 1, x)]))
    out.append(("doji", "counter-body", hist + [(x, x + 3.5, x - 0.5, x + 3)]))
    P = (10, 20, 10, 20)      # long positive candle
    N = (20, 20, 10, 10)      # long negative candle
    S = (10, 11, 9.5, 10.2)   # short candle
    out.append(("dojistar", "witness-up", hist + [P, (22, 22.5, 21.5, 22)]))
    out.append(("dojistar", "witness-down", hist + [N, (8, 8.5, 7.5, 8)]))
    out.append(("dojistar", "counter-prev-short", hist + [S, (12, 12.5, 11.5, 12)]))
    out.append(("dojistar", "counter-body", hist + [P, (21, 27, 20.5, 26.5)]))
    out.append(("dojistar", "counter-gap", hist + [P, (15, 15.5, 14.5, 15)]))
    out.append(("dojistar", "counter-gap-wrong-side", hist + [P, (8, 8.5, 7.5, 8)]))
    lo = pl["low"]
    out.append(("hammer", "witness", hist + [(lo, lo + 0.2, lo - 3, lo + 0.2)]))
    out.append(("hammer", "witness-neg", hist + [(lo + 0.2, lo + 0.2, lo - 3, lo)]))
    out.append(("hammer", "counter-body", hist + [(lo, lo + 9, lo - 10, lo + 9)]))
    out.append(("hammer", "counter-lower-shadow", hist + [(lo, lo + 0.2, lo, lo + 0.2)]))
    out.append(("hammer", "counter-upper-shadow", hist + [(lo, lo + 3.2, lo - 3, lo + 0.2)]))
    out.append(("hammer", "counter-not-near", hist + [(lo + 6, lo + 6.2, lo + 3, lo + 6.2)]))
    # thresholds RELATIVE to this history's own averages (0.4x inside / 2.5x outside each documented threshold, taken over
    # both averaging conventions): sensitive to a threshold that is averaged over the wrong number of candles
    feats_h = [feats(c) for c in hist]
    r10 = sum(f["rng"] for f in feats_h[-10:]) / 10
    r5 = sum(f["rng"] for f in feats_h[-5:]) / 5
    b10 = sum(f["body"] for f in feats_h[-10:]) / 10
    small = min(0.05 * b10, 0.02 * r10)
    if r5 > 0 and b10 > 0:
        dn, df = 0.4 * 0.2 * r5, 2.5 * 0.2 * r5
        out.append(("hammer", "rel-witness-near", hist + [(lo + dn, lo + dn + small, lo + dn - 3 * max(small, 0.01) - small, lo + dn + small)]))
        out.append(("hammer", "rel-counter-not-near", hist + [(lo + df, lo + df + small, lo + df - 3 * max(small, 0.01) - small, lo + df + small)]))
        out.append(("doji", "rel-witness", hist + [(x, x + 1, x - 1, x + 0.4 * 0.1 * r10)]))
        out.append(("doji", "rel-counter", hist + [(x, x + 2.5 * 0.1 * r10 + 1, x - 1, x + 2.5 * 0.1 * r10)]))
    b = pl["bot"]
    out.append(("inv_hammer", "witness", hist + [(b - 1.2, b + 2, b - 1.2, b - 1)]))
    out.append(("inv_hammer", "counter-body", hist + [(b - 10, b + 9, b - 10, b - 1)]))
    out.append(("inv_hammer", "counter-upper-shadow", hist + [(b - 1.2, b - 1, b - 1.2, b - 1)]))
    out.append(("inv_hammer", "counter-lower-shadow", hist + [(b - 1.2, b + 2, b - 4.2, b - 1)]))
    out.append(("inv_hammer", "counter-no-gap", hist + [(b + 0.5, b + 3.7, b + 0.5, b + 0.7)]))
    return out


def mkc(cs, k=1.0, s=0.0):
    from hexital.core.candle import Candle
    return [Candle(o * k + s, h * k + s, l * k + s, c * k + s, 5, timestamp=BASE + timedelta(minutes=j)) for j, (o, h, l, c) in enumerate(cs)]


def explore_pat(item):
    tier, sigma, prefix = item
    bind_repo()
    from hexital.analysis import PATTERN_MAP
    rep = Report()
    for tail in itertools.product(sigma, repeat=10 - len(prefix)):
        word = prefix + "".join(tail)
        hist = [HSH[w] for w in word]
        for name, label, cs in constructions(hist):
            i = len(cs) - 1
            want = ref_pattern(name, cs, i)
            fn = PATTERN_MAP[name]
            base = call(fn, mkc(cs), index=i)
            rep.inc("executions")
            case = {"fn": name, "label": label, "history": word, "candles": cs}
            if base[0] != "ok":
                rep.violation(f"C17|{name}|raised", dict(case, error=base[1]))
                continue
            if want is None:
                rep.inc("pattern_margin_missed_skipped")
            else:
                rep.inc("pattern_expect_" + str(want))
                if bool(base[1]) != want:
                    rep.violation(f"C17|{name}|{'witness-not-reported' if want else 'counter-witness-reported'}|{label}", dict(case, got=base[1], want=want))
                    continue
                rep.add("nontrivial", (name, label, word))
            for (k, s) in ((0.5, 0), (4, 0), (2.0 ** -14, 0), (1000, 0), (1, 5), (1, 1000)):
                exact = (s == 0 and k in (0.5, 4, 2.0 ** -14))
                if not exact and want is None:
                    continue  # borderline cases may legitimately flip under inexact arithmetic
                g = call(fn, mkc(cs, k, s), index=i)
                rep.inc("executions")
                if g != base:
                    rep.violation(f"C17|{name}|scale-variant", dict(case, scale=k, shift=s, got=g[1], want=base[1]))
                    break
        rep.add("states", word)
        rep.inc("transitions", 1)
    rep.sample({"family": "patterns", "history": word, "constructions": [(n, l) for n, l, _ in constructions(hist)]})
    return rep


def replay(case):
    bind_repo()
    from hexital.analysis import movement as M, PATTERN_MAP
    name = case["fn"]
    if "candles" in case:
        cs = [tuple(c) for c in case["candles"]]
        i = len(cs) - 1
        fn = PATTERN_MAP[name]
        if "scale" in case:
            return call(fn, mkc(cs, case["scale"], case["shift"]), index=i) != call(fn, mkc(cs), index=i)
        want = ref_pattern(name, cs, i)
        g = call(fn, mkc(cs), index=i)
        return g[0] != "ok" or (want is not None and bool(g[1]) != want)
    if "candle" in case:
        return True
    a = tuple(case["A"])
    i = case["index"]
    if "mode" in case:  # zero-valued readings / candle attributes
        cands, name_ = zero_cands(a, case["mode"])
        b = [1] * len(a)
        if name in ("above", "below"):
            return call(getattr(M, name), cands, name_, "B", i)[1] is not {"above": ref_above, "below": ref_below}[name](list(a), b, i)
        if name in ("crossover", "crossunder"):
            ref = {"crossover": ref_crossover, "crossunder": ref_crossunder}[name]
            return call(getattr(M, name), cands, name_, "B", case["length"], i)[1] is not ref(list(a), b, i, case["length"])
        g = call(getattr(M, name), cands, name_, case["length"], i)
        if name in ("highestbar", "lowestbar"):
            pick = max if name == "highestbar" else min
            return not (g[0] == "ok" and g[1] in (ref_bar(list(a), i, case["length"], 0, pick), ref_bar(list(a), i, case["length"], 1, pick)))
        return g[0] != "ok" or not eq(g[1], globals()["ref_" + name](list(a), i, case["length"]))
    if "scale" in case:
        a2 = tuple(None if v is None else v * case["scale"] + case["shift"] for v in a)
        return call(getattr(M, name), mk(a), "A", 2, i) != call(getattr(M, name), mk_vals(a2, a), "A", 2, i)
    if "conv" in case:
        return True
    if "B" in case:
        b = tuple(case["B"])
        c2 = mk(a, b)
        if name in ("above", "below"):
            return call(getattr(M, name), c2, "A", "B", i)[1] is not {"above": ref_above, "below": ref_below}[name](list(a), list(b), i)
        ref = {"crossover": ref_crossover, "crossunder": ref_crossunder}[name]
        return call(getattr(M, name), c2, "A", "B", case["length"], i)[1] is not ref(list(a), list(b), i, case["length"])
    ref = globals()["ref_" + name]
    g = call(getattr(M, name), mk(a), "A", case["length"], i)
    return g[0] != "ok" or not eq(g[1], ref(list(a), i, case["length"]))


def main(prop, tier):
    t0 = time.time()
    reps = pmap(explore_mov, [(tier, f) for f in VALS] + [(tier, ("zero", f)) for f in ZVALS])
    reps += pmap(explore_geo, [0])
    if tier == "quick":
        sigma = "UDJ"
        pre = [a + b + c for a in sigma for b in sigma for c in sigma]
    else:
        sigma = "UDJ"
        pre = [a + b + c for a in sigma for b in sigma for c in sigma]
    reps += pmap(explore_pat, [(tier, sigma, p) for p in pre])
    if tier != "quick":  # a fourth history shape (long down candle) behind four fixed three-candle prefixes
        reps += pmap(explore_pat, [(tier, "UDJL", p) for p in ("UDJ", "LUL", "JLD", "DDL")])
    # histories with a volatility contraction / expansion (small-range candles): 5- and 10-candle averages differ widely
    reps += pmap(explore_pat, [(tier, "JS", p) for p in ("JJJ", "JJS", "JSJ", "JSS", "SJJ", "SJS", "SSJ", "SSS")])
    rep = merge_all(reps)
    # one admitted window convention for highestbar / lowestbar must hold on all inputs
    for name in ("highestbar", "lowestbar"):
        f0, f1 = rep.n.get(f"{name}_conv0_fail", 0), rep.n.get(f"{name}_conv1_fail", 0)
        if f0 and f1:
            conv = 0 if f0 <= f1 else 1
            rep.violation(f"C17|{name}|no-consistent-window-convention", dict(rep.notes[f"{name}_conv{conv}_case"]))
        rep.notes[f"{name}_convention"] = "length candles including the current" if not f0 else ("length+1 candles" if not f1 else "none")
    for k in list(rep.notes):
        if k.endswith("_case"):
            del rep.notes[k]
    rule = ("movements: every reading list over {missing,1,2,3}^n x index >= 1 x length in {1,2,3,4,7} (x 3 partner series for above/below/cross*) "
            "against one-line reference predicates; geometry: every well-formed candle on {1..5}^4 (x scale, shift); patterns: every history over "
            "sigma^10 x 21 constructed witnesses / single-clause counter-witnesses whose margin (2x on every threshold, both averaging conventions) "
            "is verified by the reference, x scalings {1/2,4,1000} and shifts {5,1000}; non-trivial = distinct input with a present reading / "
            "distinct grid candle / distinct (pattern, construction, history) that the reference could decide")
    return finish(prop, tier, rep, t0, rule=rule, bounds={"values": VALS, "n": 5 if tier == "quick" else 6, "history_sigma": sigma},
                  replay_confirm=replay,
                  assumptions=["highestbar/lowestbar: either window convention (length or length+1 candles) is admitted but must be one",
                               "pattern cases that miss the 2x margin under either averaging convention are skipped and counted"])
