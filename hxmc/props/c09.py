"""C09 totality / finiteness / no gaps after warm-up; C10 structural invariants.
E1 exploration (absolute words, relative-step words, stutter words with long flat runs), invariant oracles
evaluated on every reading of every final state, for one-by-one appends and for batch."""
from __future__ import annotations

import math
import time
from datetime import timedelta

from .. import alphabet as A
from ..common import Report, deadline, Horizon, finish, merge_all, pmap, bind_repo
from ..configs import ALL, BY_LABEL, make, _c
from ..drivers import fresh, host_kw, tfc_label, raw_stream

# extra configs with other round_value settings (C10's rounding clause) and Counter over readings
EXTRA = [
    _c("SMA3r0", "SMA", period=3, round_value=0, name_suffix="r0"),
    _c("EMA3r2", "EMA", period=3, round_value=2, name_suffix="r2"),
    _c("RSI2r8", "RSI", period=2, round_value=8, name_suffix="r8"),
    _c("BBANDS3r2", "BBANDS", period=3, round_value=2, name_suffix="r2"),
    _c("MACD232r2", "MACD", fast_period=2, slow_period=3, signal_period=2, round_value=2, name_suffix="r2"),
    _c("KC2r1", "KC", period=2, multiplier=1.0, round_value=1, name_suffix="r1"),
    _c("ATR3r8", "ATR", period=3, round_value=8, name_suffix="r8"),
    _c("TSI2r2", "TSI", period=2, round_value=2, name_suffix="r2"),
    _c("STOCHr8", "STOCH", period=2, slow_period=2, smoothing_k=2, round_value=8, name_suffix="r8"),
    _c("COUNTclose", "Counter", input_value="close", count_value=9),
    _c("MACD32swapped", "MACD", fast_period=3, slow_period=2, signal_period=2, name_suffix="sw"),
    _c("HMA2_", "HMA", period=2, name_suffix="p2"),
    _c("ROC2vol", "ROC", period=2, input_value="volume"),
    _c("EMA2vol", "EMA", period=2, input_value="volume", name_suffix="v"),
    _c("RSI2vol", "RSI", period=2, input_value="volume", name_suffix="v"),
    _c("TSI2vol", "TSI", period=2, input_value="volume", name_suffix="v"),
    _c("STDEV2vol", "STDEV", period=2, input_value="volume", name_suffix="v"),
    _c("MACDvol", "MACD", fast_period=2, slow_period=3, signal_period=2, input_value="volume", name_suffix="v"),
    _c("HMA3_", "HMA", period=3, name_suffix="p3"),
]
for _x in EXTRA:
    BY_LABEL[_x["label"]] = _x
CONFIGS = ALL + EXTRA

REL = {  # relative letters: (close step, kind)
    "u": (1, "wick"), "d": (-1, "wick"), "n": (0, "wick"), "f": (0, "flat"), "P": (2, "body"), "M": (-2, "body"),
}


def rel_stream(word, tf, var=None):
    var = var or A.variant()
    p = 50 * var["tick"] + var["offset"]
    t = var["tick"]
    out = []
    step = A.tf_seconds(tf)
    gaps = "h" * (len(word) - 1) if tf else "t" * (len(word) - 1)
    ts = A.timestamps("+" if tf else "b", gaps, step, var["base"])
    for w, tt in zip(word, ts):
        s, kind = REL[w]
        o, c = p, p + s * t
        if kind == "wick":
            h, l, v = max(o, c) + t, min(o, c) - t, 5
        elif kind == "flat":
            h = l = o
            v = 0
        else:
            h, l, v = max(o, c), min(o, c), 7
        out.append((o, h, l, c, v, tt.isoformat()))
        p = c
    return out


def spaces(tier):
    tfcs = [(None, False, None, None), ("T2", False, None, None), ("T2", True, None, None), (None, False, None, "HA"), ("T2", True, None, "HA")]
    if tier == "quick":
        return dict(abs_sigma="UDFZ", abs_n=4, rel_sigma="udnfPM", rel_n=4, st_sigma="FZUD", st_n=3, st_r=(1, 16), tfcs=tfcs, horizon=4.0)
    # one step deeper than quick in every main family (a pass of about three times the quick one on 16 cores; the bounds that were
    # tried before - abs ^5 over six letters, relative steps up to 6, runs of 40 - were never run to completion on this machine)
    return dict(abs_sigma="UDFZ", abs_n=5, rel_sigma="udnfPM", rel_n=5, st_sigma="FZUD", st_n=3, st_r=(1, 16), tfcs=tfcs, horizon=10.0, fed_quick=True)


def streams(sp, tf, first):
    """All streams of the three families whose first letter/token is `first` (work partition)."""
    fam, f = first
    if fam == "abs":
        for tail in A.words(sp["abs_sigma"], sp["abs_n"] - 1):
            w = f + tail
            yield ("abs", w), raw_stream(w, "+" if tf else "b", ("h" if tf else "t") * (len(w) - 1), tf)
        # flat-start words: F F F then the word
        for tail in A.words(sp["abs_sigma"], sp["abs_n"] - 2):
            w = "FFF" + f + tail
            yield ("abs", w), raw_stream(w, "+" if tf else "b", ("h" if tf else "t") * (len(w) - 1), tf)
    elif fam == "frac":
        # prices with six decimals and fractional volumes (0.5, 0.7, 0, ...): running sums that never return to exactly zero
        fine = {"tick": 0.123457, "offset": 0.000013, "base": A._BASES[0], "rot": 0, "volscale": 0.1}
        for tail in A.words(sp["abs_sigma"], sp["abs_n"]):
            w = f + tail + "FFF"
            yield ("frac", w), raw_stream(w, "+" if tf else "b", ("h" if tf else "t") * (len(w) - 1), tf, var=fine)
    elif fam == "micro":
        # sub-second timestamps (the library drops them): first candle on a bucket edge + 0.4 s, candles sharing one second
        from datetime import timedelta as _td
        step = A.tf_seconds(tf)
        for tail in A.words(sp["abs_sigma"], sp["abs_n"] - 1):
            w = f + tail
            for gaps in ("0" * (len(w) - 1), "0h0t"[: len(w) - 1], "h0t0"[: len(w) - 1]):
                ts = [t.replace(microsecond=400000) for t in A.timestamps("b", gaps, step, A.variant()["base"])]
                yield ("micro", w + ":" + gaps), [A.shape(ch) + (t.isoformat(),) for ch, t in zip(w, ts)]
    elif fam == "late":
        # the same absolute words starting a few minutes before midnight (and before a month / year end): calendar edges
        from datetime import datetime as _dt
        for base in (_dt(2024, 3, 4, 23, 56), _dt(2023, 12, 31, 23, 57)):
            var = dict(A.variant(), base=base)
            for tail in A.words(sp["abs_sigma"], sp["abs_n"] - 1):
                w = f + tail + "FUD"
                gaps = "".join("hth2t"[i % 5] for i in range(len(w) - 1)) if tf else "t" * (len(w) - 1)
                yield ("late", w + base.strftime("@%m%d")), raw_stream(w, "+" if tf else "b", gaps, tf, var=var)
    elif fam == "rel":
        for n in range(1, sp["rel_n"]):
            for tail in A.words(sp["rel_sigma"], n):
                w = f + tail
                yield ("rel", w), rel_stream(w, tf)
    else:
        for n in range(0, sp["st_n"]):
            for tail in A.words(sp["st_sigma"], n):
                for reps in __import__("itertools").product(sp["st_r"], repeat=n + 1):
                    w = "".join(ch * r for ch, r in zip(f + tail, reps))
                    if tf:  # mixed gaps so that fill candles appear too
                        gaps = "".join("hth2"[i % 4] for i in range(len(w) - 1))
                    else:
                        gaps = "t" * (len(w) - 1)
                    yield ("st", w), raw_stream(w, "+" if tf else "b", gaps, tf)


FIN = (int, float)


def bad_value(v):
    """None if v is an admissible stored value, else a description."""
    if v is None or isinstance(v, bool):
        return None
    if isinstance(v, FIN):
        return None if math.isfinite(v) else f"non-finite {v!r}"
    if isinstance(v, dict):
        for k, x in v.items():
            if x is None or isinstance(x, bool):
                continue
            if isinstance(x, FIN):
                if not math.isfinite(x):
                    return f"non-finite {k}={x!r}"
                continue
            return f"bad type {k}={type(x).__name__}"
        return None
    return f"bad type {type(v).__name__}"


GAP_EXEMPT = {("Supertrend", "long"), ("Supertrend", "short")}


def check_c09(rep, cfg, ind, case, gaps_allowed=False):
    kind = cfg.get("cls", cfg.get("analysis"))
    seen = {}
    for i, c in enumerate(ind.candles):
        for store in (c.indicators, c.sub_indicators):
            for name, v in store.items():
                b = bad_value(v)
                if b:
                    rep.violation(f"C09|value|{kind}|{b.split()[0]}", dict(case, oracle="value", index=i, name=name, what=b))
        v = c.indicators.get(ind.name)
        fields = v.items() if isinstance(v, dict) else [("", v)]
        if isinstance(v, dict) or True:
            for f, x in fields:
                if x is not None:
                    seen[f] = i
                elif f in seen and (kind, f) not in GAP_EXEMPT and not gaps_allowed:
                    rep.violation(f"C09|gap|{kind}|{f}", dict(case, oracle="gap", index=i, field=f, last_value_at=seen[f]))
                    return
    if seen:
        rep.add("nontrivial", (cfg["label"], case["tfc"], case["fam"], case["word"], case["mode"]))


def rd(ind, i, name):
    from hexital.utils.candles import reading_by_candle
    return reading_by_candle(ind.candles[i], name)


def check_c10(rep, cfg, ind, case):
    kind = cfg.get("cls", cfg.get("analysis"))
    kw = cfg["kw"]
    rv = kw.get("round_value", 4)
    u = max(10.0 ** (-rv), 1e-4)  # helper series are always stored at 4 decimals, whatever round_value says
    sl = 2 * u + 1e-9
    cs = ind.candles
    name = ind.name
    checked = 0

    def V(what, i, **more):
        rep.violation(f"C10|{kind}|{what}", dict(case, oracle=what, index=i, **more))

    for i, c in enumerate(cs):
        r = c.indicators.get(name)
        if r is None:
            continue
        drift = (i + 3) * 0.5 * u + 1e-9  # incremental window updates accumulate one rounding per candle
        # rounding clause
        vals = r.values() if isinstance(r, dict) else [r]
        for x in vals:
            if isinstance(x, float) and round(x, rv) != x:
                V("not-rounded", i, value=x)
        checked += 1
        if kind == "RSI":
            if not (0 - sl <= r <= 100 + sl):
                V("range", i, value=r)
        elif kind == "STOCH":
            for f in ("stoch", "k", "d"):
                x = r.get(f)
                if x is not None and not (0 - drift <= x <= 100 + drift):
                    V("range-" + f, i, value=x)
        elif kind == "aroon":
            up, dn, osc = r.get("AROONU"), r.get("AROOND"), r.get("AROONOSC")
            for f, x in (("AROONU", up), ("AROOND", dn)):
                if x is not None and not (0 <= x <= 100):
                    V("range-" + f, i, value=x)
            if up is not None and (osc is None or abs(osc - (up - dn)) > sl):
                V("osc", i, value=r)
        elif kind == "ADX":
            x = r.get("ADX")
            if x is not None and not (0 - sl <= x <= 100 + sl):
                V("range-ADX", i, value=x)
            for f in ("DM_Plus", "DM_Neg"):
                if r.get(f) is not None and r[f] < -sl:
                    V("negative-" + f, i, value=r[f])
        elif kind == "TSI":
            if not (-100 - sl <= r <= 100 + sl):
                V("range", i, value=r)
        elif kind == "TR":
            if r < c.high - c.low - sl or c.high - c.low < 0:
                V("tr<high-low", i, value=r)
        elif kind in ("ATR", "STDEV"):
            if r < 0:
                V("negative", i, value=r)
        elif kind in ("BBANDS", "KC", "donchian"):
            lo, mid, hi = {"BBANDS": ("BBL", "BBM", "BBU"), "KC": ("lower", "band", "upper"), "donchian": ("DCL", "DCM", "DCU")}[kind]
            a, m, b = r.get(lo), r.get(mid), r.get(hi)
            if a is not None or b is not None or (kind != "KC" and m is not None):
                if a is None or m is None or b is None or not (a <= m + sl and m <= b + sl):
                    V("band-order", i, value=r)
                elif kind == "donchian":
                    if a > c.low + sl or b < c.high - sl:
                        V("donchian-encloses", i, value=r, low=c.low, high=c.high)
                    if abs(m - (a + b) / 2) > sl:
                        V("donchian-mid", i, value=r)
        elif kind == "MACD":
            m, s, h = r.get("MACD"), r.get("signal"), r.get("histogram")
            if m is not None and s is not None:
                if h is None or abs(h - (m - s)) > sl:
                    V("histogram", i, value=r)
            elif h is not None:
                V("histogram-without-inputs", i, value=r)
        elif kind == "Supertrend":
            d, t, lg, sh = r.get("direction"), r.get("trend"), r.get("long"), r.get("short")
            if d not in (1, -1):
                V("direction", i, value=r)
            elif t is None:
                if lg is not None or sh is not None:
                    V("long/short-without-trend", i, value=r)
            else:
                want_l, want_s = (t, None) if d == 1 else (None, t)
                if lg != want_l or sh != want_s:
                    V("long/short", i, value=r)
        elif kind in ("SMA", "WMA", "VWMA", "EMA", "RMA"):
            p = kw.get("period", 10)
            inp = kw.get("input_value", "close")
            if kind in ("EMA", "RMA"):
                xs = [rd(ind, j, inp) for j in range(0, i + 1)]
            else:
                xs = [rd(ind, j, inp) for j in range(max(0, i - p + 1), i + 1)]
            xs = [x for x in xs if x is not None]
            slack = drift if kind == "SMA" else sl
            if xs and not (min(xs) - slack <= r <= max(xs) + slack):
                V("average-out-of-range", i, value=r, lo=min(xs), hi=max(xs))
        elif kind == "OBV":
            if i > 0:
                prev = cs[i - 1].indicators.get(name)
                if prev is not None and min(abs((r - prev) - k) for k in (0, c.volume, -c.volume)) > sl:
                    V("obv-step", i, value=r, prev=prev, volume=c.volume)
        elif kind == "Counter":
            if not (isinstance(r, int) or float(r).is_integer()) or r < 0:
                V("counter-not-natural", i, value=r)
            prev = cs[i - 1].indicators.get(name) if i > 0 else 0
            prev = prev or 0
            if r not in (prev + 1, 0) and not (rd(ind, i, kw["input_value"]) is None and r == prev):
                V("counter-step", i, value=r, prev=prev)
        elif kind == "HL":
            if r.get("low") is not None and (r["low"] > c.low + sl or r["high"] < c.high - sl):
                V("hl-encloses", i, value=r)
        elif kind == "HLA":
            if not (c.low - sl <= r <= c.high + sl):
                V("hla-range", i, value=r)
    if checked:
        rep.add("nontrivial", (cfg["label"], case["tfc"], case["fam"], case["word"], case["mode"]))
        rep.inc("readings_checked", checked)


def run_case(prop, rep, cfg, tfc, fam, word, raw, horizon):
    kind = cfg.get("cls", cfg.get("analysis"))
    for mode in ("append1", "batch", "batch+calculate_index", "restart"):
        if mode == "batch+calculate_index" and (prop != "C10" or len(raw) < 3 or fam not in ("abs", "frac")):
            continue
        if mode == "restart" and (len(raw) < 4 or fam not in ("abs", "late")):
            continue
        case = {"cfg": cfg["label"], "tfc": tfc, "fam": fam, "word": word, "raw": raw, "mode": mode}
        try:
            with deadline(horizon):
                if mode.startswith("batch"):
                    ind = make(cfg, candles=fresh(raw), **host_kw(tfc))
                    ind.calculate()
                    rep.inc("transitions")
                    if mode == "batch+calculate_index":  # the public recomputation entry point must store the same kind of value
                        ind.calculate_index(len(ind.candles) - 1)
                        ind.calculate_index(-2)
                        rep.inc("transitions", 2)
                elif mode == "restart":
                    # a second instance takes over the already calculated candles of a first one (strategy restart)
                    k = len(raw) // 2
                    first = make(cfg, candles=fresh(raw[:k]), **host_kw(tfc))
                    first.calculate()
                    ind = make(cfg, candles=first.candles, **host_kw(tfc))
                    for c in fresh(raw[k:]):
                        ind.append(c)
                    rep.inc("transitions", len(raw) - k + 1)
                else:
                    ind = make(cfg, **host_kw(tfc))
                    for c in fresh(raw):
                        ind.append(c)
                    rep.inc("transitions", len(raw))
        except Horizon:
            rep.inc("executions")
            rep.violation(f"{prop}|horizon|{kind}", dict(case, oracle="horizon"))
            continue
        except Exception as e:
            rep.inc("executions")
            if prop == "C09":
                rep.violation(f"C09|raised|{kind}|{type(e).__name__}", dict(case, oracle="raised", error=repr(e)))
            else:
                rep.inc("raised_handed_to_C09")
            continue
        rep.inc("executions")
        from ..common import canon_candles
        rep.add("states", canon_candles(ind.candles))
        if prop == "C09":
            check_c09(rep, cfg, ind, case)
        else:
            check_c10(rep, cfg, ind, case)
    rep.sample({"cfg": cfg["label"], "tfc": tfc_label(tfc), "family": fam, "word": word, "raw": raw[:6]})


def explore(item):
    prop, tier, label, tfc, first = item
    sp = spaces(tier)
    cfg = BY_LABEL[label]
    rep = Report()
    for (fam, word), raw in streams(sp, tfc[0], first):
        run_case(prop, rep, cfg, tfc, fam, word, raw, sp["horizon"])
    return rep


# ------------------------------------------------------------------ readers fed by another indicator (C09 only)
FED_SOURCES = [("SMA3", ""), ("RSI2", ""), ("ROC2", ""), ("MACD232", "MACD"), ("STOCH222", "k")]
# series that are None again after they have started (set only while the trend points one way): for these the "no gaps" clause
# cannot apply to the reader; "never raises" and "only finite values" do
FED_SPARSE = [("ST2", "long"), ("ST2", "short")]
SPARSE_KEY = "C09|fed-by-series-with-gaps|reader-raises-TypeError"


def series_has_gaps(hx, sname):
    """True iff, in the Hexital as it stands (i.e. at the moment the reader raised), the feeding series is None somewhere after
    its first value - on any of its candle lists."""
    from hexital.utils.candles import reading_by_candle
    for cands in hx.get_candles().values():
        started = False
        for c in cands:
            if reading_by_candle(c, sname) is not None:
                started = True
            elif started:
                return True
    return False


def fed_readers():
    """Every config that can take its input from a named reading: classes with an `input_value` field (given on a candle
    field in the pool) and wrappers with indicator / indicator_one arguments."""
    bind_repo()
    from hexital.indicators import INDICATOR_MAP
    out = []
    for cfg in CONFIGS:
        if "cls" in cfg:
            if "input_value" in getattr(INDICATOR_MAP[cfg["cls"]], "__dataclass_fields__", {}) and cfg["kw"].get("input_value", "close") in ("close", "high", "volume"):
                out.append(cfg["label"])
        elif "indicator" in cfg["kw"] or "indicator_one" in cfg["kw"]:
            out.append(cfg["label"])
    return out


def fed_kw(rcfg, scfg, sfield):
    sname = make(scfg).name + ("." + sfield if sfield else "")
    kw = dict(rcfg["kw"])
    if "cls" in rcfg:
        kw["input_value"] = sname
    elif "indicator" in kw:
        kw["indicator"] = sname
    else:
        kw["indicator_one"] = sname
    return kw


def fed_build(rcfg, scfg, sfield, tfc, candles):
    from hexital import Hexital
    rdr = make({**rcfg, "kw": fed_kw(rcfg, scfg, sfield)})
    hx = Hexital("h", candles, [make(scfg), rdr], **host_kw(tfc))
    return hx, rdr.name


def run_fed(rep, rlabel, slabel, sfield, tfc, fam, word, raw, horizon, prop="C09"):
    rcfg, scfg = BY_LABEL[rlabel], BY_LABEL[slabel]
    kind = rcfg.get("cls", rcfg.get("analysis"))
    for mode in ("append1", "batch"):
        case = {"cfg": rlabel, "fed": [slabel, sfield], "tfc": tfc, "fam": fam, "word": word, "raw": raw, "mode": mode}
        hx = None
        try:
            with deadline(horizon):
                if mode == "batch":
                    hx, rname = fed_build(rcfg, scfg, sfield, tfc, fresh(raw))
                    hx.calculate()
                    rep.inc("transitions")
                else:
                    hx, rname = fed_build(rcfg, scfg, sfield, tfc, [])
                    for c in fresh(raw):
                        hx.append(c)
                    rep.inc("transitions", len(raw))
        except Horizon:
            rep.inc("executions")
            rep.violation(f"{prop}|horizon|{kind}<-{slabel}", dict(case, oracle="horizon"))
            continue
        except Exception as e:
            rep.inc("executions")
            if prop == "C09":
                sig = f"C09|raised|{kind}<-{slabel}|{type(e).__name__}"
                if isinstance(e, TypeError) and hx is not None and series_has_gaps(hx, make(scfg).name + ("." + sfield if sfield else "")):
                    sig = SPARSE_KEY  # known finding: identified by the input class (a feeding series with interior gaps), not by the reader
                rep.violation(sig, dict(case, oracle="raised", error=repr(e)))
            else:
                rep.inc("raised_handed_to_C09")
            continue
        rep.inc("executions")
        from ..common import canon_candles
        ind = hx.indicator(rname)
        rep.add("states", canon_candles(ind.candles))
        if prop == "C09":
            check_c09(rep, dict(rcfg, label=f"{rlabel}<-{slabel}"), ind, case, gaps_allowed=(slabel, sfield) in FED_SPARSE)
        else:  # the relations are about the reader's own arithmetic, whatever series it is given
            check_c10(rep, dict(rcfg, label=f"{rlabel}<-{slabel}", kw=fed_kw(rcfg, scfg, sfield)), ind, case)


def explore_fed(item):
    prop, tier, rlabel, slabel, sfield, tfc, first = item
    sp = spaces("quick")  # the fed-reader families use the quick bounds in both tiers
    rep = Report()
    for (fam, word), raw in streams(sp, tfc[0], first):
        run_fed(rep, rlabel, slabel, sfield, tfc, fam, word, raw, sp["horizon"], prop)
    rep.sample({"reader": rlabel, "source": slabel + ("." + sfield if sfield else ""), "tfc": tfc_label(tfc)})
    return rep


def replay(case):
    cfg = BY_LABEL[case["cfg"]]
    rep = Report()
    if case.get("fed"):
        if case["oracle"] == "horizon":
            return True
        run_fed(rep, case["cfg"], case["fed"][0], case["fed"][1], tuple(case["tfc"]), case["fam"], case["word"], [tuple(r) for r in case["raw"]], 30,
                "C09" if case["oracle"] in ("raised", "value", "gap") else "C10")
        return bool(rep.viol)
    prop = "C09" if case["oracle"] in ("raised", "value", "gap") else "C10"
    if case["oracle"] == "horizon":
        return True
    run_case(prop, rep, cfg, tuple(case["tfc"]), case["fam"], case["word"], [tuple(r) for r in case["raw"]], 30)
    return bool(rep.viol)


def main(prop, tier):
    t0 = time.time()
    sp = spaces(tier)
    items = []
    tfcs = list(sp["tfcs"])  # lifespan hosts are C15's: where the look-back is retained readings equal the untrimmed run's
    for cfg in CONFIGS:
        for tfc in tfcs:
            for f in sp["abs_sigma"]:
                items.append((prop, tier, cfg["label"], tfc, ("abs", f)))
            for f in sp["rel_sigma"]:
                items.append((prop, tier, cfg["label"], tfc, ("rel", f)))
            for f in sp["st_sigma"]:
                items.append((prop, tier, cfg["label"], tfc, ("st", f)))
            for f in sp["abs_sigma"]:
                items.append((prop, tier, cfg["label"], tfc, ("frac", f)))
                items.append((prop, tier, cfg["label"], tfc, ("late", f)))
                if tfc[0]:
                    items.append((prop, tier, cfg["label"], tfc, ("micro", f)))
    reps = pmap(explore, items, chunksize=4)
    if True:
        fitems = []
        for rl in fed_readers():
            if prop == "C10" and BY_LABEL[rl].get("cls") == "STOCH":
                continue  # %K of a series that is not confined to [low, high] is not confined to [0, 100]
            for sl, sf in FED_SOURCES:
                if BY_LABEL[rl].get("cls") == BY_LABEL[sl]["cls"] and BY_LABEL[rl]["kw"].get("period") == BY_LABEL[sl]["kw"].get("period"):
                    continue  # the reader would carry the very name of its source
                for tfc in sp["tfcs"][:3]:
                    for f in sp["abs_sigma"]:
                        fitems.append((prop, tier, rl, sl, sf, tfc, ("abs", f)))
                    for f in sp["st_sigma"]:
                        fitems.append((prop, tier, rl, sl, sf, tfc, ("st", f)))
            if prop == "C09":
                for sl, sf in FED_SPARSE:  # the stutter family: runs long enough for the trend to flip and the window to straddle the flip
                    for tfc in sp["tfcs"][:3]:
                        for f in sp["st_sigma"]:
                            fitems.append((prop, tier, rl, sl, sf, tfc, ("st", f)))
        reps += pmap(explore_fed, fitems, chunksize=4)
    rep = merge_all(reps)
    rule = ("every word of three stream families (absolute shapes sigma^n incl. flat-start prefixes; relative close steps "
            "{+1,-1,0 with wicks, 0 flat zero-volume, +2,-2 bodies}^<=n incl. all monotone runs; stutter words with runs of 16+ identical "
            "candles) x every indicator config x {base, T2, T2+fill}, run one-append-at-a-time and in batch; the invariant is evaluated on "
            "every stored reading of the final state; non-trivial = distinct (config, timeframe config, word, mode) with at least one "
            "non-None top-level reading; additionally: every config that accepts a named input (input_value / indicator arguments) fed, "
            "inside a Hexital, by each of the sources SMA, RSI, ROC, MACD.MACD, STOCH.k (readings that start as None, can be 0 / 100 / negative) "
            "over the absolute and stutter families, appended one by one and in batch; C09 also with the sparse series Supertrend.long / .short "
            "as the source (raising and value clauses only)")
    bounds = {k: v for k, v in sp.items() if k != "tfcs"}
    bounds["tfcs"] = [tfc_label(t) for t in tfcs]
    bounds["configs"] = len(CONFIGS)
    bounds["fed_sources"] = FED_SOURCES
    bounds["fed_sparse_sources"] = FED_SPARSE
    bounds["variant"] = A.variant()
    return finish(prop, tier, rep, t0, rule=rule, bounds=bounds, replay_confirm=replay,
                  assumptions=["prices on the stated grids (finite, positive, low<=open,close<=high)", "periods 2-6"])
