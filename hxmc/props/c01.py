"""C01 incremental appends == batch; C02 closed candles are final.
Engine E1: configs x streams x gap words x every composition x preloads, on the real Indicator."""
from __future__ import annotations

import time

from .. import alphabet as A
from ..common import Report, deadline, Horizon, finish, first_diff, merge_all, pmap, plain_candle
from ..configs import ALL, BY_LABEL, PATTERNS
from ..drivers import batch, full, obs, raw_stream, run_schedule, tfc_label, fresh, host_kw
from ..configs import make

PREAMBLE = ["UDJUDJUDJU", "DUFJUDVUJD", "JJDUFUDDUJ"]


def spaces(tier):
    if tier == "quick":
        return dict(sigma="UDFJ", n=4, n_step=5, sigma_step="UDF", tfcs=[
            ((None, False, None, None), ["step"]),
            (("T2", False, None, None), ["reg", "mix"]),
            (("T2", True, None, None), ["mix", "gappy"]),
        ], pat_n=2, horizon=3.0, plumb_n=6, plumb_gaps="ht2", plumb_tfcs=[("T2", False, None, None), ("T2", True, None, None)])
    return dict(sigma="UDFJ", n=5, n_step=7, sigma_step="UDF", tfcs=[
        ((None, False, None, None), ["step"]),
        (("T2", False, None, None), ["reg", "mix"]),
        (("T2", True, None, None), ["mix", "gappy"]),
        (("S30", False, None, None), ["mix"]),
        (("H1", True, None, None), ["gappy"]),
        (("D1", False, None, None), ["reg"]),
        ((None, False, None, "HA"), ["step"]),
        (("T2", False, None, "HA"), ["mix"]),
    ], deep=[((None, False, None, None), "step", 6)], pat_n=3, horizon=6.0,
                plumb_n=7, plumb_gaps="ht2", plumb_tfcs=[("T2", False, None, None), ("T2", True, None, None), ("T2", False, None, "HA"), ("H1", True, None, None)])


def schedules(n, base_preload=0):
    """(preload, calc_first, comp) for a stream of n candles; preloads {0,1,2,n-1} (+base)."""
    out = []
    for k in sorted({0, 1, 2, n - 1}):
        if k < 0 or k >= n:
            continue
        for comp in A.compositions(n - k):
            if k == 0 and base_preload == 0:
                out.append((0, False, comp))
            else:
                out.append((base_preload + k, False, comp))
                out.append((base_preload + k, True, comp))
                if k >= 2 and len(comp) <= 2:
                    out.append((base_preload + k, "restart", comp))
    return out


def closed(snapshot, tfc):
    """Drop the still-forming last bucket iff the config collapses."""
    return snapshot[:-1] if tfc[0] is not None else snapshot


def explore(item):
    prop, tier, label, tfc, gkind, first_letters = item[:6]
    sp = spaces(tier)
    if len(item) > 6:
        sp = dict(sp, n=item[6])
    cfg = BY_LABEL[label]
    rep = Report()
    is_pat = cfg in PATTERNS
    pre = PREAMBLE[A.variant()["rot"] % len(PREAMBLE)] if is_pat else ""
    n = sp["pat_n"] if is_pat else sp["n"]
    tfsec = A.tf_seconds(tfc[0])
    for fl in first_letters:
        for tail in A.words(sp["sigma"], n - 1):
            word = pre + fl + tail
            gaps = A.regular_gaps(gkind, len(word), tfsec)
            raw = raw_stream(word, "b" if gkind in ("step",) else "+", gaps, tfc[0])
            try:
                with deadline(sp["horizon"]):
                    one_stream(prop, rep, cfg, tfc, raw, len(pre), gkind)
            except Horizon:
                rep.violation(f"{prop}|horizon|{cfg.get('cls', cfg.get('analysis'))}",
                              {"cfg": label, "tfc": tfc, "raw": raw, "why": "did not terminate within horizon"})
    return rep


def one_stream(prop, rep, cfg, tfc, raw, base_preload, gkind):
    label = cfg["label"]
    kind = cfg.get("cls", cfg.get("analysis"))
    n = len(raw) - base_preload
    try:
        b = batch(cfg, raw, tfc)
    except Exception as e:
        rep.inc("batch_raised")  # totality is C09's; nothing to compare against here
        return
    B = obs(b)
    rep.inc("executions")
    rep.inc("transitions")
    rep.add("states", B)
    has_reading = any(c[6] and any(v is not None and v != () for _, v in c[6]) for c in B)
    if prop == "C02":
        # batch over every prefix must not look ahead
        for k in range(1, len(raw)):
            try:
                Bk = obs(batch(cfg, raw[:k], tfc))
            except Exception:
                rep.inc("batch_raised")
                continue
            rep.inc("executions")
            rep.inc("transitions")
            ck = closed(Bk, tfc)
            if B[:len(ck)] != ck:
                rep.violation(f"C02|batch-prefix|{kind}",
                              {"cfg": label, "tfc": tfc, "raw": raw, "oracle": "batch-prefix", "k": k,
                               "diff": first_diff(ck, B[:len(ck)])})
            elif ck and has_reading:
                rep.add("nontrivial", (label, tfc, gkind, tuple(raw), "bp", k))
    for (k, calc_first, comp) in schedules(n, base_preload):
        snaps = []
        try:
            ind = run_schedule(cfg, raw, tfc, k, calc_first, comp,
                               on_step=(lambda i, pos: snaps.append(obs(i))) if prop == "C02" else None)
        except Exception as e:
            rep.inc("executions")
            rep.violation(f"{prop}|schedule-raised|{kind}|{type(e).__name__}",
                          {"cfg": label, "tfc": tfc, "raw": raw, "preload": k, "calc_first": calc_first, "comp": comp,
                           "oracle": "schedule-raised", "error": repr(e)})
            continue
        rep.inc("executions")
        rep.inc("transitions", len(comp) + 1)
        if prop == "C01":
            S = obs(ind)
            rep.add("states", S)
            if S != B:
                rep.violation(f"C01|final!=batch|{kind}",
                              {"cfg": label, "tfc": tfc, "raw": raw, "preload": k, "calc_first": calc_first, "comp": comp,
                               "oracle": "final!=batch", "diff": first_diff(S, B)})
            elif has_reading and len(comp) >= 2:
                rep.add("nontrivial", (label, tfc, gkind, tuple(raw), k, calc_first, comp))
        else:
            if calc_first is False and snaps:
                snaps = snaps[1:]  # an uncalculated preload has no readings yet: not a point of the history
            for s in snaps:
                rep.add("states", s)
            bad = None
            for i in range(len(snaps)):
                ci = closed(snaps[i], tfc)
                for j in range(i + 1, len(snaps)):
                    if snaps[j][:len(ci)] != ci:
                        bad = (i, j, first_diff(ci, snaps[j][:len(ci)]))
                        break
                if bad:
                    break
            if bad:
                rep.violation(f"C02|repaint|{kind}",
                              {"cfg": label, "tfc": tfc, "raw": raw, "preload": k, "calc_first": calc_first, "comp": comp,
                               "oracle": "repaint", "t": bad[0], "t2": bad[1], "diff": bad[2]})
            elif has_reading and len(snaps) >= 2:
                rep.add("nontrivial", (label, tfc, gkind, tuple(raw), k, calc_first, comp))
    rep.sample({"cfg": label, "tfc": tfc_label(tfc), "raw": raw, "schedules": len(schedules(n, base_preload))})


# ---------------------------------------------------------------- plumbing dimension: every gap word x every schedule
PLUMB_POOL = ["OBV", "HLA", "VWAP", "positive", "EMA2", "RSI2", "MACD232", "ST2", "ADX22", "STOCH222", "VWMA2", "BBANDS2", "SMA3", "highest2"]
PLUMB_WORDS = ["UDJLHFVZU", "JLDUHVFZD", "LHUJDZVFJ"]


def explore_gaps(item):
    """Where candles fall relative to bucket edges decides which appends merge, open one bucket, open several or
    fill: every gap word over {same bucket, next bucket, skip one, far} x first offset x every composition."""
    prop, tier, label, tfc, first, g0 = item[:6]
    micro = item[6] if len(item) > 6 else 0  # sub-second part added to every timestamp (the library drops it)
    sp = spaces(tier)
    if len(item) > 7:
        sp = dict(sp, plumb_gaps=item[7])
    cfg = BY_LABEL[label]
    rep = Report()
    n = sp["plumb_n"]
    tfsec = A.tf_seconds(tfc[0])
    word = PLUMB_WORDS[A.variant()["rot"] % len(PLUMB_WORDS)][:n]
    for rest in A.words(sp["plumb_gaps"], n - 2):
        gaps = g0 + rest
        ts = A.timestamps(first, gaps, tfsec, A.variant()["base"])
        if micro:
            ts = [t.replace(microsecond=micro) for t in ts]
        raw = [A.shape(w) + (t.isoformat(),) for w, t in zip(word, ts)]
        try:
            with deadline(sp["horizon"] * 2):
                one_stream(prop, rep, cfg, tfc, raw, 0, "gaps:" + first + gaps + (".%06d" % micro if micro else ""))
        except Horizon:
            rep.violation(f"{prop}|horizon|{cfg.get('cls', cfg.get('analysis'))}",
                          {"cfg": label, "tfc": tfc, "raw": raw, "why": "did not terminate within horizon"})
    return rep


# ---------------------------------------------------------------- chained indicators inside a Hexital, both listing orders
CHAINS = [("EMA", {"period": 2}, "SMA", {"period": 2, "input_value": "EMA_2"}),
          ("RSI", {"period": 2}, "STDEV", {"period": 2, "input_value": "RSI_2"}),
          ("SMA", {"period": 3}, "RMA", {"period": 2, "input_value": "SMA_3"}),
          ("MACD", {"fast_period": 2, "slow_period": 3, "signal_period": 2}, "EMA", {"period": 2, "input_value": "MACD_2_3_2.MACD", "name_suffix": "m"}),
          ("Supertrend", {"period": 2, "multiplier": 1.0}, "Counter", {"input_value": "Supertrend_2.direction", "count_value": 1}),
          ("SMA", {"period": 3}, "KC", {"period": 2, "multiplier": 1.0, "input_value": "SMA_3"}),
          ("RSI", {"period": 2}, "BBANDS", {"period": 2, "input_value": "RSI_2"})]


def explore_chain(item):
    """A dependent indicator and its source registered in a Hexital in either order (dependent-first leaves the dependent
    one candle behind or empty - whatever it shows must still be schedule independent and final once shown)."""
    prop, tier, ci, order, tf = item
    bind = __import__("hxmc.common", fromlist=["bind_repo"]).bind_repo
    bind()
    from hexital import Hexital
    from hexital.indicators import INDICATOR_MAP
    from ..common import canon_candles
    sp = spaces(tier)
    rep = Report()
    a_cls, a_kw, b_cls, b_kw = CHAINS[ci]
    n = sp["n"] + 1

    def members():
        if order == 2:  # mixed forms, source first: a config dict for the source, an object for the reader
            return [dict({"indicator": a_cls}, **a_kw), INDICATOR_MAP[b_cls](**b_kw)]
        m = [INDICATOR_MAP[a_cls](**a_kw), INDICATOR_MAP[b_cls](**b_kw)]
        return m if order == 0 else m[::-1]

    def view(hx):
        return tuple((k, canon_candles(v)) for k, v in sorted(hx.get_candles().items()))

    kw = {"timeframe": tf} if tf else {}
    same_as_objects = None
    for word in A.words(sp["sigma"][:3], n):
        raw = raw_stream(word, "+" if tf else "b", ("h" if tf else "t") * (n - 1), tf)
        case = {"cfg": f"chain{ci}", "chain": ci, "order": order, "tfc": (tf, False, None, None), "raw": raw}
        try:
            with deadline(sp["horizon"] * 3):
                hb = Hexital("b", fresh(raw), members(), **kw)
                hb.calculate()
                B = view(hb)
                rep.inc("executions")
                if order == 2:  # the form in which a member is given must not matter: same result as two objects, source first
                    ho = Hexital("o", fresh(raw), [INDICATOR_MAP[a_cls](**a_kw), INDICATOR_MAP[b_cls](**b_kw)], **kw)
                    ho.calculate()
                    if view(ho) != B:
                        rep.violation(f"{prop}|chain-form-matters|{b_cls}<-{a_cls}", dict(case, comp=(n,), oracle="chain-form", diff=first_diff(B, view(ho))))
                        continue
                for comp in A.compositions(n):
                    hx = Hexital("s", [], members(), **kw)
                    pos, snaps = 0, []
                    for k in comp:
                        hx.append(fresh(raw[pos:pos + k]))
                        pos += k
                        snaps.append(view(hx))
                    rep.inc("executions")
                    rep.inc("transitions", len(comp))
                    rep.add("states", snaps[-1])
                    if prop == "C01":
                        if snaps[-1] != B:
                            rep.violation(f"C01|chain-final!=batch|{b_cls}<-{a_cls}|order{order}", dict(case, comp=comp, oracle="chain-final",
                                                                                               diff=first_diff(snaps[-1], B)))
                        elif len(comp) >= 2:
                            rep.add("nontrivial", ("chain", ci, order, tf, word, comp))
                    else:
                        bad = None
                        for i in range(len(snaps)):
                            for j in range(i + 1, len(snaps)):
                                for (k1, c1), (k2, c2) in zip(snaps[i], snaps[j]):
                                    ci_ = c1[:-1] if tf else c1
                                    if c2[:len(ci_)] != ci_:
                                        bad = (i, j, first_diff(ci_, c2[:len(ci_)]))
                        if bad:
                            rep.violation(f"C02|chain-repaint|{b_cls}<-{a_cls}|order{order}", dict(case, comp=comp, oracle="chain-repaint", t=bad[0], t2=bad[1], diff=bad[2]))
                        elif len(comp) >= 2:
                            rep.add("nontrivial", ("chain", ci, order, tf, word, comp))
        except Horizon:
            rep.violation(f"{prop}|horizon|chain{ci}", dict(case, why="horizon"))
        except Exception as e:
            rep.inc("chain_raised_" + type(e).__name__)
    rep.sample({"chain": CHAINS[ci], "order": "source first" if order == 0 else "dependent first", "tf": tf, "raw": raw})
    return rep


# ---------------------------------------------------------------- Hexital member sets with their own timeframe / fill flags
HSETS = [
    [("SMA", {"period": 2, "timeframe": "T2"}), ("EMA", {"period": 2, "timeframe": "T2", "timeframe_fill": True})],
    [("EMA", {"period": 2, "timeframe": "T2", "timeframe_fill": True}), ("SMA", {"period": 2, "timeframe": "T2"})],
    [("OBV", {}), ("RSI", {"period": 2, "timeframe": "T2"}), ("SMA", {"period": 2, "timeframe": "T4", "timeframe_fill": True})],
    [("MACD", {"fast_period": 2, "slow_period": 3, "signal_period": 2, "timeframe": "T4"}), ("TR", {"timeframe": "T2"})],
    # Hexitals with their own (finer) timeframe: the members' candles are seeded from the default manager at construction
    [("SMA", {"period": 2}), ("EMA", {"period": 2, "timeframe": "T4"})],
    [("RSI", {"period": 2, "timeframe": "T2"}), ("OBV", {"timeframe": "T4"}), ("TR", {})],
]
HSET_HKW = {4: {"timeframe": "T1"}, 5: {"timeframe": "T1"}}


def _hx_view(hx):
    from ..common import canon_candles
    return tuple((k, canon_candles(v)) for k, v in sorted(hx.get_candles().items()))


def _hx_members(hi):
    from hexital.indicators import INDICATOR_MAP
    return [INDICATOR_MAP[c](**kw) for c, kw in HSETS[hi]]


def hset_run(hi, hfill, k0, raw, comp):
    """-> (batch view, snapshots along the schedule)"""
    from hexital import Hexital
    hkw = dict(HSET_HKW.get(hi, {}), **({"timeframe_fill": True} if hfill else {}))
    hb = Hexital("b", fresh(raw), _hx_members(hi), **hkw)
    hb.calculate()
    hx = Hexital("s", fresh(raw[:k0]), _hx_members(hi), **hkw)
    hx.calculate()
    pos, snaps = k0, ([_hx_view(hx)] if k0 else [])
    for k in comp:
        hx.append(fresh(raw[pos:pos + k]))
        pos += k
        snaps.append(_hx_view(hx))
    return _hx_view(hb), snaps


def hset_repaint(snaps):
    """closed candles (all but the last of every timeframe manager; the base manager has no open bucket) are final"""
    for i in range(len(snaps)):
        for j in range(i + 1, len(snaps)):
            for (k1, c1), (k2, c2) in zip(snaps[i], snaps[j]):
                c = c1 if k1 == "default" else c1[:-1]
                if c2[:len(c)] != c:
                    return (i, j, k1, first_diff(c, c2[:len(c)]))
    return None


def explore_hset(item):
    """Hexital hosts: members on shared / nested timeframes with differing fill flags, history given at construction
    (k candles) and the rest appended in every composition, over every gap word."""
    prop, tier, hi, hfill, k0 = item
    __import__("hxmc.common", fromlist=["bind_repo"]).bind_repo()
    sp = spaces(tier)
    rep = Report()
    n = 5 if tier == "quick" else 7
    word = PLUMB_WORDS[A.variant()["rot"] % len(PLUMB_WORDS)][:n]
    for gaps in A.words("ht25", n - 1):
        ts = A.timestamps("+", gaps, 120, A.variant()["base"])
        raw = [A.shape(w) + (t.isoformat(),) for w, t in zip(word, ts)]
        case = {"cfg": f"hset{hi}", "hset": hi, "hfill": hfill, "k0": k0, "tfc": ("T2", hfill, None, None), "raw": raw}
        for comp in A.compositions(n - k0):
            try:
                with deadline(sp["horizon"] * 3):
                    B, snaps = hset_run(hi, hfill, k0, raw, comp)
            except Horizon:
                rep.violation(f"{prop}|horizon|hset{hi}", dict(case, comp=comp, why="horizon"))
                continue
            except Exception as e:
                rep.inc("hset_raised_" + type(e).__name__)
                continue
            rep.inc("executions", 2)
            rep.inc("transitions", len(comp) + 2)
            rep.add("states", snaps[-1])
            if prop == "C01":
                if snaps[-1] != B:
                    rep.violation(f"C01|hexital-set-final!=batch|hset{hi}", dict(case, comp=comp, oracle="hset-final", diff=first_diff(snaps[-1], B)))
                elif len(comp) >= 2:
                    rep.add("nontrivial", ("hset", hi, hfill, k0, gaps, comp))
            else:
                bad = hset_repaint(snaps)
                if bad:
                    rep.violation(f"C02|hexital-set-repaint|hset{hi}", dict(case, comp=comp, oracle="hset-repaint", detail=bad))
                elif len(comp) >= 2:
                    rep.add("nontrivial", ("hset", hi, hfill, k0, gaps, comp))
    rep.sample({"hexital_members": HSETS[hi], "hexital_kw": HSET_HKW.get(hi, {}), "hexital_fill": hfill, "history_at_construction": k0, "raw": raw})
    return rep


def replay_hset(case, prop):
    __import__("hxmc.common", fromlist=["bind_repo"]).bind_repo()
    B, snaps = hset_run(case["hset"], case["hfill"], case["k0"], [tuple(r) for r in case["raw"]], tuple(case["comp"]))
    return snaps[-1] != B if prop == "C01" else bool(hset_repaint(snaps))


# ---------------------------------------------------------------- step confluence (deeper N)


def explore_step(item):
    """For every stream s over sigma_step^<=n_step and every i<j: append(batch(s[:i]), s[i:j]) must have
    the same FULL canon as batch(s[:j]); also from the uncalculated preload. By induction on the number
    of appends every schedule of every such stream ends in the batch state (DESIGN 3.1)."""
    prop, tier, label, tfc, gkind, first_letters = item
    sp = spaces(tier)
    cfg = BY_LABEL[label]
    kind = cfg.get("cls", cfg.get("analysis"))
    rep = Report()
    n = sp["n_step"]
    tfsec = A.tf_seconds(tfc[0])
    cache = {}
    done = set()

    def B(raw_t):
        r = cache.get(raw_t)
        if r is None:
            try:
                r = full(batch(cfg, list(raw_t), tfc))
            except Exception:
                r = "RAISED"
            cache[raw_t] = r
            rep.inc("executions")
            rep.inc("transitions")
        return r

    for fl in first_letters:
        for tail in A.words(sp["sigma_step"], n - 1):
            word = fl + tail
            gaps = A.regular_gaps(gkind, len(word), tfsec)
            raw = raw_stream(word, "b" if gkind == "step" else "+", gaps, tfc[0])
            try:
                with deadline(sp["horizon"] * 4):
                    for j in range(1, n + 1):
                        if tuple(raw[:j]) in done:  # every prefix is checked exactly once
                            continue
                        done.add(tuple(raw[:j]))
                        target = B(tuple(raw[:j]))
                        if target == "RAISED":
                            rep.inc("batch_raised")
                            continue
                        rep.add("states", target)
                        for i in range(0, j):
                            for calc_first in ((True, False) if i > 0 else (False,)):
                                try:
                                    ind = make(cfg, candles=fresh(raw[:i]), **host_kw(tfc))
                                    if calc_first:
                                        ind.calculate()
                                    ind.append(fresh(raw[i:j]))
                                    got = full(ind)
                                except Exception as e:
                                    rep.inc("executions")
                                    rep.violation(f"{prop}|step-raised|{kind}|{type(e).__name__}",
                                                  {"cfg": label, "tfc": tfc, "raw": raw[:j], "preload": i,
                                                   "calc_first": calc_first, "comp": (j - i,), "oracle": "step-raised",
                                                   "error": repr(e)})
                                    continue
                                rep.inc("executions")
                                rep.inc("transitions", 2)
                                if got != target:
                                    d = first_diff(got[0], target[0])
                                    what = "step!=batch" if d else "step-cursor!=batch"
                                    rep.violation(f"{prop}|{what}|{kind}",
                                                  {"cfg": label, "tfc": tfc, "raw": raw[:j], "preload": i,
                                                   "calc_first": calc_first, "comp": (j - i,), "oracle": what,
                                                   "diff": d or first_diff(got, target)})
                                elif i > 0:
                                    rep.add("nontrivial", (label, tfc, gkind, tuple(raw[:j]), i, calc_first))
            except Horizon:
                rep.violation(f"{prop}|horizon|{kind}", {"cfg": label, "tfc": tfc, "raw": raw, "why": "horizon"})
        cache.clear()
        done.clear()
    return rep


def replay(case):
    """Re-execute one recorded case without the explorer; True iff it still violates."""
    orc = case.get("oracle")
    if case.get("why"):
        return True
    if orc == "chain-form":
        return True
    if orc in ("chain-final", "chain-repaint"):
        return explore_chain_one(case, "C01" if orc == "chain-final" else "C02")
    if orc in ("hset-final", "hset-repaint"):
        return replay_hset(case, "C01" if orc == "hset-final" else "C02")
    cfg = BY_LABEL[case["cfg"]]
    tfc = tuple(case["tfc"])
    raw = [tuple(r) for r in case["raw"]]
    try:
        if orc in ("final!=batch", "schedule-raised"):
            B = obs(batch(cfg, raw, tfc))
            try:
                S = obs(run_schedule(cfg, raw, tfc, case["preload"], case["calc_first"], tuple(case["comp"])))
            except Exception:
                return orc == "schedule-raised"
            return S != B
        if orc in ("step!=batch", "step-cursor!=batch", "step-raised"):
            T = full(batch(cfg, raw, tfc))
            try:
                ind = make(cfg, candles=fresh(raw[:case["preload"]]), **host_kw(tfc))
                if case["calc_first"]:
                    ind.calculate()
                ind.append(fresh(raw[case["preload"]:]))
            except Exception:
                return orc == "step-raised"
            return full(ind) != T
        if orc == "batch-prefix":
            B = obs(batch(cfg, raw, tfc))
            ck = closed(obs(batch(cfg, raw[:case["k"]], tfc)), tfc)
            return B[:len(ck)] != ck
        if orc == "repaint":
            snaps = []
            run_schedule(cfg, raw, tfc, case["preload"], case["calc_first"], tuple(case["comp"]),
                         on_step=lambda i, pos: snaps.append(obs(i)))
            if case["calc_first"] is False:
                snaps = snaps[1:]
            for i in range(len(snaps)):
                ci = closed(snaps[i], tfc)
                for j in range(i + 1, len(snaps)):
                    if snaps[j][:len(ci)] != ci:
                        return True
            return False
    except Exception:
        return True
    return True


def explore_chain_one(case, prop):
    """Replay of one chain case: re-run the single (stream, composition) without the explorer."""
    bind_repo = __import__("hxmc.common", fromlist=["bind_repo"]).bind_repo
    bind_repo()
    from hexital import Hexital
    from hexital.indicators import INDICATOR_MAP
    from ..common import canon_candles
    a_cls, a_kw, b_cls, b_kw = CHAINS[case["chain"]]
    tf = case["tfc"][0]
    kw = {"timeframe": tf} if tf else {}
    raw = [tuple(r) for r in case["raw"]]

    def members():
        if case["order"] == 2:
            return [dict({"indicator": a_cls}, **a_kw), INDICATOR_MAP[b_cls](**b_kw)]
        m = [INDICATOR_MAP[a_cls](**a_kw), INDICATOR_MAP[b_cls](**b_kw)]
        return m if case["order"] == 0 else m[::-1]

    def view(hx):
        return tuple((k, canon_candles(v)) for k, v in sorted(hx.get_candles().items()))

    hb = Hexital("b", fresh(raw), members(), **kw)
    hb.calculate()
    hx = Hexital("s", [], members(), **kw)
    pos, snaps = 0, []
    for k in case["comp"]:
        hx.append(fresh(raw[pos:pos + k]))
        pos += k
        snaps.append(view(hx))
    if prop == "C01":
        return snaps[-1] != view(hb)
    for i in range(len(snaps)):
        for j in range(i + 1, len(snaps)):
            for (k1, c1), (k2, c2) in zip(snaps[i], snaps[j]):
                c = c1[:-1] if tf else c1
                if c2[:len(c)] != c:
                    return True
    return False


def main(prop, tier):
    t0 = time.time()
    sp = spaces(tier)
    items = []
    for cfg in ALL + PATTERNS:
        for tfc, gkinds in sp["tfcs"]:
            for g in gkinds:
                if cfg in PATTERNS:
                    items.append((prop, tier, cfg["label"], tfc, g, sp["sigma"]))
                else:
                    for fl in sp["sigma"]:
                        items.append((prop, tier, cfg["label"], tfc, g, fl))
    for tfc, g, n in sp.get("deep", []):
        for cfg in ALL:
            for fl in sp["sigma"]:
                items.append((prop, tier, cfg["label"], tfc, g, fl, n))
    reps = pmap(explore, items)
    gap_items = [(prop, tier, l, tfc, first, g0) for l in PLUMB_POOL for tfc in sp["plumb_tfcs"] for first in "+b" for g0 in sp["plumb_gaps"]]
    gap_items += [(prop, tier, l, (None, False, None, None), "b", g0, 0, "0t") for l in PLUMB_POOL for g0 in "0t"]  # duplicates on the base timeframe
    gap_items += [(prop, tier, l, sp["plumb_tfcs"][0], first, g0, 400000) for l in ("OBV", "VWAP", "EMA2", "ST2") for first in "+b" for g0 in sp["plumb_gaps"]]
    reps += pmap(explore_gaps, gap_items)
    reps += pmap(explore_hset, [(prop, tier, hi, hfill, k0) for hi in range(len(HSETS)) for hfill in (False, True) for k0 in (0, 3)])
    reps += pmap(explore_chain, [(prop, tier, ci, order, tf) for ci in range(len(CHAINS)) for order in (0, 1, 2) for tf in (None, "T2")])
    step_its = []
    for cfg in ALL:
        for tfc, gkinds in sp["tfcs"]:
            for gk in (gkinds if tier != "quick" else gkinds[-1:]):
                for fl in sp["sigma_step"]:
                    step_its.append((prop, tier, cfg["label"], tfc, gk, fl))
    if prop == "C01":
        reps += pmap(explore_step, step_its)
    rep = merge_all(reps)
    rule = ("every word over sigma^n x gap pattern x every composition into append chunks x preload in {0,1,2,n-1} "
            "(with/without calculate before the first append) per indicator config and timeframe config; "
            "non-trivial = distinct (config, stream, schedule) with >=2 appends whose batch result has a non-None reading "
            "and whose oracle comparison was evaluated")
    bounds = {"sigma": sp["sigma"], "n": sp["n"], "step_sigma": sp["sigma_step"], "step_n": sp["n_step"],
              "tfcs": [tfc_label(t) + ":" + ",".join(g) for t, g in sp["tfcs"]], "deeper": [(tfc_label(t), g, n) for t, g, n in sp.get("deep", [])], "configs": len(ALL) + len(PATTERNS),
              "pattern_suffix_n": sp["pat_n"], "plumbing": {"pool": PLUMB_POOL, "n": sp["plumb_n"], "gaps": sp["plumb_gaps"], "tfcs": [tfc_label(t) for t in sp["plumb_tfcs"]]}, "variant": A.variant()}
    return finish(prop, tier, rep, t0, rule=rule, bounds=bounds, replay_confirm=replay,
                  assumptions=["streams over the stated candle/gaps alphabets; periods 2-6",
                               "float equality is bit-exact between two executions of the same code"])
