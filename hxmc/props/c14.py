"""C13 no interference between indicators sharing candles; C14 maintenance operations are idempotent and
converge to the batch state.  Engine E2: explicit-state breadth-first search over public API operation
sequences on a live Hexital, successors by forking (deepcopy) the parent and calling the real method,
deduplication on a canonical form of the whole object graph, oracles per transition and per state."""
from __future__ import annotations

import copy
import itertools
import time
from collections import deque

from .. import alphabet as A
from ..common import Report, deadline, Horizon, finish, merge_all, pmap, bind_repo, canon_candles, cnum
from ..configs import BY_LABEL, CORE, WRAPPERS, make, _c
from ..drivers import fresh, raw_stream, _tree

STREAM_WORDS = ["UDJFVLUDHZ", "JDUUFLHVDZ", "LFUJDVUZHD"]

C14_SETS = [("SMA2",), ("TR",), ("ATR2",), ("HMA4",), ("STDEV2",), ("STOCH222",), ("TSI2",), ("AROON2",), ("MACD232",), ("ADX22",),
            ("BBANDS2",), ("ST2",), ("RSI2",), ("KC2",), ("VWAP",), ("OBV",), ("COUNTvol",), ("highestbar3",), ("WMA2",), ("EMA2",),
            ("RMA2",), ("VWMA2",), ("DON2",), ("HL2",), ("HLA",), ("STDEVTHRES2",), ("ROC2",), ("crossover2",),
            ("SMA2", "EMA2"), ("RSI2", "MACD232"), ("ST2", "TSI2"), ("STOCH222", "ADX22"), ("HMA4", "BBANDS2"),
            ("RSI2@T2",), ("STOCH222@T2", "SMA2"), ("ATR2@T2", "EMA2@T2"), ("MACD232@T2",), ("ST2@T2", "OBV")]
EXTRA = "EMA3"


def mk(label):
    """'RSI2' or 'RSI2@T2' (member on its own timeframe; '@t2' lower-case spelling, '@=T5' enum member, '+fill')."""
    base, _, tf = label.partition("@")
    tf, _, fill = tf.partition("+")
    kw = {"timeframe": tf} if tf else {}
    if tf.startswith("="):  # the TimeFrame enum member with that value
        from hexital.utils.timeframe import TimeFrame
        kw["timeframe"] = next(m for m in TimeFrame if m.value == tf[1:])
    if fill:
        kw["timeframe_fill"] = True
    return make(BY_LABEL[base], **kw)


def nm_(label):
    return mk(label).name


class St:
    __slots__ = ("hx", "pos", "reg", "clean", "removed")

    def __init__(self, hx, pos, reg, clean, removed=None):
        self.hx, self.pos, self.reg, self.clean = hx, pos, reg, clean
        self.removed = removed or {}  # name -> (label, the removed Indicator object), so that the SAME object can be re-added

    def fork(self):
        hx, removed = copy.deepcopy((self.hx, self.removed))
        return St(hx, self.pos, tuple(self.reg), self.clean, removed)


def names(reg):
    return [nm_(l) for l in reg]


def snap_eq(a, b):
    """Snapshots agree: managers present in both are identical; a manager present on one side only (a timeframe whose
    last member was removed) must not carry any reading."""
    da, db = dict(a), dict(b)
    for k in set(da) | set(db):
        if k in da and k in db:
            if da[k] != db[k]:
                return False
        else:
            for group in (da[k] if k in da else db[k]):
                for c in group:
                    if c[6] or c[7]:
                        return False
    return True


def snapshot(hx):
    """Readings per effective timeframe, independent of WHICH manager object holds them: managers that collapse to the same
    timeframe and agree on their candles (timestamp, OHLCV) are merged, their readings united per candle. (After
    remove + re-add an indicator may legitimately live on its own manager for the timeframe it had adopted.)"""
    groups = {}
    for key, m in sorted(hx._candles.items()):
        tf = m.timeframe or "base"
        cs = canon_candles(m.candles)
        shape = tuple(c[:6] for c in cs)
        g = groups.setdefault(tf, [])
        for entry in g:
            if entry[0] == shape:
                entry[1] = tuple(c[:6] + (tuple(sorted(set(c[6]) | set(d[6]))), tuple(sorted(set(c[7]) | set(d[7])))) for c, d in zip(entry[1], cs))
                break
        else:
            g.append([shape, cs])
    return tuple((tf, tuple(e[1] for e in g)) for tf, g in sorted(groups.items()))


def canon_full(st):
    """Deduplication key = deep snapshot of the WHOLE object graph (every instance attribute of the Hexital, its managers,
    candles, indicators, helpers, and of removed-but-kept indicator objects), not a hand-picked set of fields: any hidden
    state a change introduces (a cache, a cursor, a flag) keeps states apart, so merging is sound by construction."""
    from .c19 import deep
    return deep((st.hx, {k: v[1] for k, v in st.removed.items()}, st.pos))


_twin_cache = {}


HKW = {}  # Hexital-level settings of the item being searched (set by bfs / replay)


def twin_snapshot(reg, raw, pos):
    """Batch state of a fresh Hexital holding `reg` over the first pos candles."""
    key = (tuple(reg), pos, id(raw), tuple(sorted(HKW.items())))
    r = _twin_cache.get(key)
    if r is None:
        from hexital import Hexital
        hx = Hexital("t", fresh(raw[:pos]), [mk(l) for l in reg], **HKW)
        hx.calculate()
        r = _twin_cache[key] = snapshot(hx)
    return r


def initial_states(reg, raw):
    from hexital import Hexital
    out = []
    out.append(("empty", St(Hexital("h", [], [mk(l) for l in reg], **HKW), 0, tuple(reg), True)))
    out.append(("preloaded", St(Hexital("h", fresh(raw[:4]), [mk(l) for l in reg], **HKW), 4, tuple(reg), False)))
    h = Hexital("h", fresh(raw[:4]), [mk(l) for l in reg], **HKW)
    h.calculate()
    out.append(("calculated", St(h, 4, tuple(reg), True)))
    return out


def enabled_ops(st, raw, prop, target=None):
    n = len(st.hx.candles())
    ops = []
    if st.pos + 1 <= len(raw):
        ops.append(("append", 1))
    if st.pos + 2 <= len(raw):
        ops.append(("append", 2))
    targets = [None] + names(st.reg) if prop == "C14" else [target]
    if prop == "C13":
        ops.append(("calculate", None))
        for t in targets:
            if t in st.hx._indicators:
                ops += [("purge", t), ("recalculate", t), ("remove", t)]
        return ops
    for t in targets:
        ops += [("calculate", t), ("purge", t), ("recalculate", t)]
        if st.clean and n >= 3:
            for i in (-1, -2, n - 1, n - 2):
                ops.append(("calculate_index", t, i))
    for l in st.reg:
        ops.append(("remove", nm_(l)))
    for name in sorted(st.removed):
        if name not in st.hx._indicators:  # registering a second indicator under a name in use replaces the first: not in the alphabet
            ops.append(("readd", name))
    if EXTRA not in st.reg and len(st.reg) < 3:
        ops.append(("add", EXTRA))
    return ops


def apply(st, op, raw):
    hx = st.hx
    k = op[0]
    if k == "append":
        chunk = fresh(raw[st.pos:st.pos + op[1]])
        hx.append(chunk if op[1] > 1 else chunk[0])
        st.pos += op[1]
        st.clean = True
    elif k == "calculate":
        hx.calculate(op[1]) if op[1] else hx.calculate()
        if op[1] is None or len(st.reg) == 1:
            st.clean = True
    elif k == "purge":
        hx.purge(op[1]) if op[1] else hx.purge()
        st.clean = False
    elif k == "recalculate":
        hx.recalculate(op[1]) if op[1] else hx.recalculate()
    elif k == "calculate_index":
        if op[1]:
            hx.calculate_index(op[1], op[2])
        else:
            hx.calculate_index(index=op[2])
    elif k == "remove":
        obj = hx._indicators.get(op[1])
        lab = next(l for l in st.reg if nm_(l) == op[1])
        hx.remove_indicator(op[1])
        st.reg = tuple(l for l in st.reg if nm_(l) != op[1])
        st.removed[op[1]] = (lab, obj)
    elif k == "readd":
        lab, obj = st.removed.pop(op[1])
        hx.add_indicator(obj)  # the very object that was removed
        st.reg = st.reg + (lab,)
        st.clean = False
    elif k == "add":
        hx.add_indicator(mk(op[1]))
        st.reg = st.reg + (op[1],)
        st.clean = False
    return st


def kind_of(reg):
    return "+".join(BY_LABEL[l.partition("@")[0]].get("cls", BY_LABEL[l.partition("@")[0]].get("analysis")) + ("@tf" if "@" in l else "") for l in reg)


def bfs(item):
    prop, tier, reg, depth, word = item[:5]
    HKW.clear()
    HKW.update(dict(item[5]) if len(item) > 5 else {})
    gaps = item[6] if len(item) > 6 else None
    tix = item[7] if len(item) > 7 else 0  # C13: index of the member the operations are aimed at
    bind_repo()
    rep = Report()
    raw = raw_stream(word, gaps=gaps) if gaps else raw_stream(word)
    _twin_cache.clear()
    hz = 5.0
    seen = {}
    frontier = deque()
    for tag, st in initial_states(reg, raw):
        if prop == "C13" and tag == "preloaded":
            continue  # nothing has been calculated there yet, so "reads what it reads alone" is not defined
        c = canon_full(st)
        if c not in seen:
            seen[c] = (tag,)
            frontier.append((st, (tag,), 0))
    kinds = kind_of(reg) + ("|" + ",".join(f"{k}={v}" for k, v in sorted(HKW.items())) if HKW else "")
    alone = {}

    def alone_list(label, pos):
        key = (label, pos)
        if key not in alone:
            from hexital import Hexital
            ind = mk(label)
            h = Hexital("a", fresh(raw[:pos]), [ind], **HKW)
            h.calculate()
            alone[key] = [cnum(x) for x in ind.as_list()]
        return alone[key]

    maxdepth = 0
    while frontier:
        st, path, d = frontier.popleft()
        maxdepth = max(maxdepth, d)
        # ---- state oracle: a calculate() from here never raises and reaches the batch state
        if prop == "C14":
            probe = st.fork()
            try:
                with deadline(hz):
                    probe.hx.calculate()
                ok = snap_eq(snapshot(probe.hx), twin_snapshot(st.reg, raw, st.pos))
                err = None
            except Exception as e:
                ok, err = False, repr(e)
            rep.inc("executions")
            if not ok:
                last = path[-1] if len(path) > 1 else ("init",)
                rep.violation(f"C14|converge|{kinds}|after-{last[0] if isinstance(last, tuple) else last}" + ("|raised" if err else ""),
                              {"reg": reg, "word": word, "path": path, "oracle": "converge", "error": err, "hkw": dict(HKW), "gaps": gaps})
                continue  # downstream of a corrupted state is consequence, not a new finding
        if d >= depth:
            rep.inc("frontier_at_bound")
            continue
        pre_snap = snapshot(st.hx)
        for op in enabled_ops(st, raw, prop, names(reg)[tix]):
            nxt = st.fork()
            pre_clean = st.clean
            pre_reg = st.reg
            try:
                with deadline(hz):
                    apply(nxt, op, raw)
            except Horizon:
                rep.violation(f"{prop}|horizon|{kinds}|{op[0]}", {"reg": reg, "word": word, "path": path + (op,), "oracle": "horizon", "hkw": dict(HKW), "gaps": gaps})
                continue
            except Exception as e:
                rep.inc("transitions")
                rep.violation(f"{prop}|raised|{kinds}|{op[0]}|{type(e).__name__}",
                              {"reg": reg, "word": word, "path": path + (op,), "oracle": "raised", "error": repr(e), "hkw": dict(HKW), "gaps": gaps})
                continue
            rep.inc("transitions")
            rep.inc("executions")
            post = snapshot(nxt.hx)
            bad = None
            if prop == "C14" and pre_clean:
                k = op[0]
                if k == "calculate" and not snap_eq(post, pre_snap):
                    bad = "calculate-not-idempotent"
                elif k == "recalculate" and not snap_eq(post, pre_snap):
                    bad = "recalculate!=replaced"
                elif k == "calculate_index" and not snap_eq(post, pre_snap):
                    bad = "calculate_index-changed-readings" + ("-negative" if op[2] < 0 else "")
                elif k in ("purge", "remove"):
                    left = tuple(l for l in pre_reg if op[1] is not None and nm_(l) != op[1])
                    if not snap_eq(post, twin_snapshot(left, raw, st.pos)):
                        bad = f"{k}-not-exactly-own-entries"
                elif k == "append" and not snap_eq(post, twin_snapshot(nxt.reg, raw, nxt.pos)):
                    bad = "append!=batch"
                elif k in ("add", "readd") and not snap_eq(post, pre_snap):
                    bad = "add-changed-readings"
            if prop == "C13":
                # every other registered indicator must read exactly what it reads alone
                target = names(reg)[tix]
                for l in nxt.reg:
                    nm = nm_(l)
                    if nm == target or nm not in nxt.hx._indicators:
                        continue
                    got = [cnum(x) for x in nxt.hx.indicator(nm).as_list()]
                    want = alone_list(l, nxt.pos)
                    if op[0] in ("append", "calculate") or True:
                        if got != want:
                            bad = f"other-changed-by-{op[0]}"
                            break
            if bad:
                rep.violation(f"{prop}|{bad}|{kinds}", {"reg": reg, "word": word, "path": path + (op,), "oracle": bad, "hkw": dict(HKW), "gaps": gaps, "target": tix})
                continue  # do not expand a corrupted successor
            c = canon_full(nxt)
            if c not in seen:
                seen[c] = path + (op,)
                frontier.append((nxt, path + (op,), d + 1))
    rep.inc("states", len(seen))
    for c in seen:
        rep.add("states_set", c)
    rep.notes["max_depth"] = maxdepth
    if len(seen) > 3:
        for c in seen:
            rep.add("nontrivial", c)
        rep.add("nontrivial_sets", (prop, reg, word))
    sample_path = max(seen.values(), key=len)
    rep.sample({"indicators": reg, "stream": word, "states": len(seen), "longest_path": sample_path})
    return rep


def replay(case):
    bind_repo()
    from hexital import Hexital
    reg = tuple(case["reg"])
    HKW.clear()
    HKW.update(case.get("hkw") or {})
    raw = raw_stream(case["word"], gaps=case["gaps"]) if case.get("gaps") else raw_stream(case["word"])
    path = case["path"]
    prop = "C13" if case["oracle"].startswith("other-changed") else "C14"
    tag = path[0]
    st = dict(initial_states(reg, raw))[tag]
    _twin_cache.clear()
    pre = None
    try:
        for op in path[1:]:
            op = tuple(op)
            pre = (snapshot(st.hx), st.clean, st.reg, st.pos)
            apply(st, op, raw)
    except Exception:
        return True
    o = case["oracle"]
    post = snapshot(st.hx)
    if o == "converge":
        try:
            st.hx.calculate()
        except Exception:
            return True
        return not snap_eq(snapshot(st.hx), twin_snapshot(st.reg, raw, st.pos))
    if o.startswith("other-changed"):
        target = names(reg)[case.get("target", 0)]
        for l in st.reg:
            nm = nm_(l)
            if nm == target:
                continue
            ind = mk(l)
            h = Hexital("a", fresh(raw[:st.pos]), [ind], **HKW)
            h.calculate()
            if [cnum(x) for x in st.hx.indicator(nm).as_list()] != [cnum(x) for x in ind.as_list()]:
                return True
        return False
    if o in ("calculate-not-idempotent", "recalculate!=replaced", "add-changed-readings") or o.startswith("calculate_index"):
        return not snap_eq(post, pre[0])
    if o.endswith("not-exactly-own-entries"):
        op = tuple(path[-1])
        left = tuple(l for l in pre[2] if op[1] is not None and nm_(l) != op[1])
        return not snap_eq(post, twin_snapshot(left, raw, pre[3]))
    if o == "append!=batch":
        return not snap_eq(post, twin_snapshot(st.reg, raw, st.pos))
    return True


# C13 pool: name relationships (substring names, shared helper names), filtered to "neither takes the other as input"
C13_EXTRA = [
    _c("EMA2x", "EMA", period=2, name_suffix="x"),
    _c("RSI2b", "RSI", period=2, name_suffix="b"),
    _c("SMA2high", "SMA", period=2, input_value="high", name_suffix=None, fullname_override=None),
    _c("STDEV2high", "STDEV", period=2, input_value="high"),
    _c("SMA20", "SMA", period=20),
    _c("ATR3_", "ATR", period=3),
]
for _x in C13_EXTRA:
    BY_LABEL[_x["label"]] = _x


def c13_pairs(tier):
    labels = [c["label"] for c in CORE if c["label"] not in ("EMA2s3",)] + [c["label"] for c in C13_EXTRA] + \
             ["positive", "rising2", "highest2", "crossover2"]
    seen_names = {}
    out = []
    for a, b in itertools.permutations(labels, 2):
        na, nb = make(BY_LABEL[a]).name, make(BY_LABEL[b]).name
        if na == nb:
            continue  # distinct top-level names only
        out.append((a, b))
    return out


def main(prop, tier):
    t0 = time.time()
    var = A.variant()
    word = STREAM_WORDS[var["rot"] % len(STREAM_WORDS)]
    items = []
    if prop == "C14":
        depth = 4 if tier == "quick" else 6
        for reg in C14_SETS:
            items.append((prop, tier, reg, depth, word))
        for reg in (("EMA2",), ("RSI2", "SMA2"), ("ST2",), ("EMA2@T2",)):
            items.append((prop, tier, reg, depth, word, (("candlestick_type", "HA"),)))
        for reg in (("SMA2",), ("MACD232", "OBV"), ("STOCH222@T4",)):
            items.append((prop, tier, reg, depth, word, (("timeframe", "T2"),)))
        for reg in (("SMA2@T2", "EMA2"), ("RSI2@T2",)):
            items.append((prop, tier, reg, depth, word, (("timeframe_fill", True),), "tt2t5tt2t"))
            if tier != "quick":
                items.append((prop, tier, reg, depth, STREAM_WORDS[(var["rot"] + 1) % 3]))
    else:
        depth = 3 if tier == "quick" else 5
        for a, b in c13_pairs(tier):  # ordered pairs: both registration orders; operations aimed at either member
            for tix in (0, 1):
                items.append((prop, tier, (a, b), depth - 1, word, (), None, tix))
        trip = [("EMA2", "EMA2x", "SMA2"), ("BBANDS2", "SMA2high", "STDEV2high"), ("TR", "ATR2", "ST2"), ("KC2", "ATR2", "EMA2"),
                ("MACD232", "EMA2", "EMA3"), ("SMA2", "SMA20", "BBANDS2")]
        for t in trip:
            for perm in itertools.permutations(t):
                for tix in (0, 1, 2):
                    items.append((prop, tier, perm, depth, word, (), None, tix))
        # members on their own (shared / differently spelled / fill-flagged) timeframes over a stream with gaps
        tfp = [("SMA2@T2", "EMA2@T2"), ("SMA2@T2", "EMA2@T2+fill"), ("SMA2@T2+fill", "EMA2@T2"), ("RSI2@S120", "OBV@S120"),
               ("SMA2@t2", "EMA2@T2"), ("SMA2@T5", "EMA2@=T5"), ("ATR2@T2", "TR@T4"), ("BBANDS2@T4", "SMA2@T2"), ("MACD232@S120", "EMA2@T2"), ("ST2@T2+fill", "OBV")]
        for a, b in tfp:
            for perm in ((a, b), (b, a)):
                for tix in (0, 1):
                    items.append((prop, tier, perm, depth, word, (), "tt2t5tt2t", tix))
                    items.append((prop, tier, perm, depth, word, (("timeframe_fill", True),), "tt2t5tt2t", tix))
        # a Hexital with its own timeframe, one member on the default candles and one explicitly on that same timeframe
        for a, b in [("SMA2", "EMA2@T2"), ("OBV", "RSI2@T2"), ("MACD232", "SMA2@T4")]:
            for perm in ((a, b), (b, a)):
                for tix in (0, 1):
                    items.append((prop, tier, perm, depth, word, (("timeframe", "T2"),), None, tix))
    rep = merge_all(pmap(bfs, items, chunksize=2))
    if prop == "C14":
        rule = ("breadth-first search from 3 initial states (empty, pre-loaded not calculated, calculated) over the menu {append 1|2, "
                "calculate([name]), purge([name]), recalculate([name]), calculate_index([name], i in {-1,-2,n-1,n-2}) on clean states, "
                "add_indicator (a fresh indicator, or re-adding the very object that was removed), remove_indicator} to the depth bound for every indicator set; states deduplicated on the canonical full object "
                "graph; per-transition oracles and the convergence probe (fork, calculate(), compare with a fresh batch twin) in every state; "
                "non-trivial = distinct canonical states reached by searches that got beyond their initial states")
    else:
        rule = ("breadth-first search over {append 1|2, calculate(), purge(a), recalculate(a), remove_indicator(a)} aimed at the first member for "
                "every ordered pair (both registration orders are separate items) and name-relationship triples; in every reached state every "
                "other registered indicator must read exactly what it reads in a Hexital of its own; non-trivial as for C14")
    return finish(prop, tier, rep, t0, rule=rule, bounds={"depth": depth, "depth_note": "C13: the all-pairs list is searched to depth-1, name-relationship triples and timeframe pairs to depth", "stream": word, "sets": len(items), "extra_indicator": EXTRA},
                  replay_confirm=replay, nontrivial_key="nontrivial",
                  extra={"states": rep.n.get("states", 0), "frontier_at_bound": rep.n.get("frontier_at_bound", 0),
                         "exhaustive_below_depth": depth},
                  assumptions=["base timeframe; one fixed 10-candle stream per seed variant", "deepcopy of a live Hexital preserves aliasing (self-checked by replay of every violation)"])
