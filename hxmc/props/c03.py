"""C03 collapsing == right-closed right-labelled resampling; C12 gap filling.
E1 on the candle manager through four hosts, every composition into appends, repeated collapse passes,
against the reference in ref/cm.py."""
from __future__ import annotations

import time

from .. import alphabet as A
from ..common import Report, deadline, Horizon, finish, merge_all, pmap, bind_repo, cnum
from ..drivers import fresh
from ..ref import cm as R

TFS_ALL = ["S1", "S30", "S45", "T1", "T2", "T5", "T7", "T45", "H1", "H4", "H5", "D1", "D2", "D7"]
GAPS = "01hmtp2x5"
FIRSTS = "b+m-"
SHAPEWORDS = ["UDJLHFVZ", "LHFUDJZV", "JZUVLDHF"]
# words with value-equal neighbours: an exact re-delivery of a candle must be merged (volume counted twice), not dropped
REPEATWORDS = ["UUDDJJLL", "UUUUUUUU", "UDDDJJJU"]
HOSTS = ["cm", "ind", "hexm", "hexd", "cm-spelling", "ind-spelling", "hexfm", "hexm2"]  # *-spelling: lower-case string / TimeFrame enum member
# hexfm: a Hexital with its own finer timeframe (a divisor of tf, same fill option) and a member on tf; right-closed buckets nest,
# so the member's candles must still be the reference resampling of the raw stream (fill candles of the fine series are not data)
# hexm2: two members on distinct timeframes (tf and its double) registered in one call


def finer(tf):
    s = A.tf_seconds(tf)
    d = next((s // q for q in (2, 3, 5, 7) if s % q == 0 and s // q >= 1), None)
    if d is None:
        return None
    for unit, sec in (("D", 86400), ("H", 3600), ("T", 60), ("S", 1)):
        if d % sec == 0:
            return f"{unit}{d // sec}"


def spaces(tier):
    if tier == "quick":
        return dict(deep_tfs=["T2", "S45", "D2"], deep_n=4, tfs=TFS_ALL, n=3, extras=(0, 1), horizon=3.0)
    return dict(deep_tfs=["T2", "S45", "H5", "D2"], deep_n=5, tfs=TFS_ALL, n=4, extras=(0, 1, 2), horizon=6.0)


def view(candles):
    return [(cnum(c.open), cnum(c.high), cnum(c.low), cnum(c.close), cnum(c.volume),
             c.timestamp.isoformat() if c.timestamp else None) for c in candles]


def rview(raw):
    return [(cnum(o), cnum(h), cnum(l), cnum(c), cnum(v), t) for o, h, l, c, v, t in raw]


def execute(raw, tf, fill, host, preload, comp, extra):
    """Run the real code; returns the collapsed candle view of the timeframe manager."""
    bind_repo()
    from hexital import Hexital
    from hexital.core.candle_manager import CandleManager
    from hexital.indicators import SMA

    first = fresh(raw[:preload])
    if host.endswith("-spelling"):
        from hexital.utils.timeframe import TimeFrame
        enum = next((m for m in TimeFrame if m.value == tf), None)
        tf = enum if enum is not None else tf.lower()
        host = host.split("-")[0]
    if host == "cm":
        obj = CandleManager(first, timeframe=tf, timeframe_fill=fill)
        get = lambda: obj.candles
        mgr = lambda: obj
    elif host == "ind":
        obj = SMA(period=2, candles=first, timeframe=tf, timeframe_fill=fill)
        get = lambda: obj.candles
        mgr = lambda: obj.candle_manager
    elif host == "hexm":
        obj = Hexital("x", first, [SMA(period=2, timeframe=tf)], timeframe_fill=fill)
        get = lambda: obj.candles(tf)
        mgr = lambda: obj._candles[tf]
    elif host == "hexm2":
        obj = Hexital("x", first, [SMA(period=2, timeframe=tf), SMA(period=2, timeframe=f"{tf[0]}{2 * int(tf[1:])}")], timeframe_fill=fill)
        get = lambda: obj.candles(tf)
        mgr = lambda: obj._candles[tf]
    elif host == "hexfm":
        obj = Hexital("x", first, [SMA(period=2, timeframe=tf)], timeframe=finer(tf), timeframe_fill=fill)
        get = lambda: obj.candles(tf)
        mgr = lambda: obj._candles[tf]
    else:
        obj = Hexital("x", first, [SMA(period=2)], timeframe=tf, timeframe_fill=fill)
        get = lambda: obj.candles()
        mgr = lambda: obj._candles["default"]
    for _ in range(extra):
        mgr().collapse_candles()
    pos = preload
    for k in comp:
        obj.append(fresh(raw[pos:pos + k]))
        pos += k
        for _ in range(extra):
            mgr().collapse_candles()
    return view(get())


def schedules(n):
    out = [(n, ())]
    for k in range(0, n):
        for comp in A.compositions(n - k):
            out.append((k, comp))
    return out


def explore(item):
    prop, tier, tf, n, first, g0s = item[:6]
    sp = spaces(tier)
    rep = Report()
    fill = prop == "C12"
    tfsec = A.tf_seconds(tf)
    var = A.variant()
    word = SHAPEWORDS[var["rot"] % len(SHAPEWORDS)] if len(item) < 7 or len(item) > 7 else REPEATWORDS[item[6]]
    for g0 in g0s:
        for rest in A.words(GAPS, n - 2) if n >= 2 else [""]:
            gaps = g0 + rest if n >= 2 else ""
            base = var["base"] if len(item) < 8 else item[7]
            ts = A.timestamps(first, gaps, tfsec, base)
            raw = [A.shape(word[i % len(word)], var) + (t.isoformat(),) for i, t in enumerate(ts)]
            ref = R.collapse(raw, tfsec)
            ref_nofill = ref
            if fill:
                ref = R.fill(ref, tfsec)
            want = rview(ref)
            nontriv = len(ref_nofill) < len(raw) or len(ref) > len(ref_nofill)
            rep.add("abstract", (first, tuple(gaps)))
            for host in HOSTS:
                for (k, comp) in schedules(n):
                    for extra in sp["extras"]:
                        if host == "hexfm" and finer(tf) is None:
                            continue
                        case = {"tf": tf, "fill": fill, "host": host, "raw": raw, "preload": k, "comp": comp, "extra": extra}
                        try:
                            with deadline(sp["horizon"]):
                                got = execute(raw, tf, fill, host, k, comp, extra)
                        except Horizon:
                            rep.inc("executions")
                            rep.violation(f"{prop}|horizon|{host}", dict(case, oracle="horizon"))
                            continue
                        except Exception as e:
                            rep.inc("executions")
                            rep.violation(f"{prop}|raised|{host}|{type(e).__name__}", dict(case, oracle="raised", error=repr(e)))
                            continue
                        rep.inc("executions")
                        rep.inc("transitions", len(comp) + 1 + extra * (len(comp) + 1))
                        rep.add("states", tuple(got))
                        if got != want:
                            rep.violation(f"{prop}|!=reference|{host}", dict(case, oracle="reference", want=want, got=got))
                            continue
                        # structural consequences, checked independently of the reference
                        tss = [g[5] for g in got]
                        if any(a >= b for a, b in zip(tss, tss[1:])):
                            rep.violation(f"{prop}|not-increasing|{host}", dict(case, oracle="increasing", got=got))
                        if sum(float.fromhex(g[4]) for g in got) != sum(r[4] for r in raw):
                            rep.violation(f"{prop}|volume|{host}", dict(case, oracle="volume", got=got))
                        if fill:
                            secs = [R._secs(t) for t in tss]
                            if any(b - a != tfsec for a, b in zip(secs, secs[1:])):
                                rep.violation(f"{prop}|not-contiguous|{host}", dict(case, oracle="contiguous", got=got))
                        if nontriv:
                            rep.add("nontrivial", (tf, host, first, gaps, k, comp, extra))
            rep.sample({"tf": tf, "fill": fill, "raw": raw, "reference": ref, "schedules": len(schedules(n))})
    return rep


def replay(case):
    raw = [tuple(r) for r in case["raw"]]
    tfsec = A.tf_seconds(case["tf"])
    ref = R.collapse(raw, tfsec)
    if case["fill"]:
        ref = R.fill(ref, tfsec)
    try:
        with deadline(10):
            got = execute(raw, case["tf"], case["fill"], case["host"], case["preload"], tuple(case["comp"]), case["extra"])
    except BaseException:
        return True
    if got != rview(ref):
        return True
    tss = [g[5] for g in got]
    return any(a >= b for a, b in zip(tss, tss[1:]))


def main(prop, tier):
    t0 = time.time()
    sp = spaces(tier)
    items = []
    for tf in sp["tfs"]:
        for n in range(1, sp["n"] + 1):
            for first in FIRSTS:
                items.append((prop, tier, tf, n, first, GAPS if n >= 2 else "0"))
    for tf in sp["deep_tfs"]:
        for n in range(sp["n"] + 1, sp["deep_n"] + 1):
            for first in FIRSTS:
                for g in GAPS:
                    items.append((prop, tier, tf, n, first, g))
    rtfs = ["S1", "T2", "H4", "D1"] if tier == "quick" else sp["tfs"]
    for tf in rtfs:
        for wi in range(len(REPEATWORDS)):
            for n in range(2, sp["n"] + 1):
                for first in FIRSTS:
                    items.append((prop, tier, tf, n, first, GAPS, wi))
    from datetime import datetime as _dt
    for tf in (["T2", "H4", "D2"] if tier == "quick" else sp["tfs"]):  # timestamps before / across the epoch (negative offsets)
        for n in range(2, sp["n"] + 1):
            for first in FIRSTS:
                items.append((prop, tier, tf, n, first, GAPS, 0, _dt(1969, 12, 31, 23, 56) if tf[0] in "ST" else _dt(1969, 12, 27, 20, 0)))
    rep = merge_all(pmap(explore, items))
    rule = ("every gap word over {dup,1s,tf/2,tf-1,tf,tf+1,2tf,2.5tf,5tf+1}^(n-1) x first-candle offset {on boundary,+1s,mid,-1s} "
            "x timeframe x host {CandleManager, Indicator, Hexital member timeframe, Hexital default timeframe, Hexital on a finer default timeframe with a member on tf, Hexital with members on tf and 2tf} x preload k x every "
            "composition of the rest into appends x 0..2 extra collapse passes after each step, compared with the reference resampler; "
            "non-trivial = distinct case in which at least two candles share a bucket (or a fill candle is inserted) and the comparison ran")
    bounds = {"timeframes": sp["tfs"], "n": sp["n"], "deep_timeframes": sp["deep_tfs"], "deep_n": sp["deep_n"],
              "gaps": GAPS, "firsts": FIRSTS, "extras": sp["extras"], "hosts": HOSTS, "variant": A.variant(), "repeat_shape_words": REPEATWORDS}
    return finish(prop, tier, rep, t0, rule=rule, bounds=bounds, replay_confirm=replay,
                  assumptions=["process TZ=UTC (zone dependence is C18)", "second-resolution naive timestamps, non-decreasing"])
