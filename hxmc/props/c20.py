"""C20 all ways of asking for a reading give the same answer.
E1 states: every prefix state of every stream over sigma^n for Hexitals with 1-3 timeframes holding scalar,
dict-valued, zero-valued and False-valued indicators; oracle = agreement of every access path, for every
name (plain and dotted) and every in-range index, positive and negative."""
from __future__ import annotations

import time

from .. import alphabet as A
from ..common import Report, deadline, Horizon, finish, merge_all, pmap, bind_repo, cnum
from ..configs import BY_LABEL, make
from ..drivers import fresh, raw_stream

SETS = [
    (("TR", None), ("OBV", None), ("COUNTvol", None)),
    (("positive", None), ("MACD232", None), ("ST2", "T2")),
    (("SMA2", None), ("TR", "T2"), ("COUNTvol", "T4")),
    (("BBANDS2", "T2"), ("negative", "T2"), ("OBV", "T2")),
    (("STOCH222", None), ("AROON2", None), ("value_range3", None)),
    (("ADX22", None), ("VWAP", "T2"), ("highestbar3", None)),
    (("KC2", None),), (("DON2", "T2"), ("HL2", None)),
    # a member timeframe FINER than the data spacing under fill: that member has more candles than the default list
    (("SMA2", "S30"), ("OBV", None), ("FILL", True)),
    (("TR", "S20"), ("ST2", "T2"), ("FILL", True)),
    # big moves: Supertrend flips direction, so its long/short fields come and go (readings with holes)
    (("ST2", None), ("RSI2", None), ("SIGMA", "REL:PMud")),
    # a Hexital with its own timeframe: one member on the default candles, one explicitly on the same timeframe, one coarser
    (("EMA2", None), ("SMA2", "T2"), ("OBV", "T4"), ("HTF", "T2")),
    # dots in a user supplied suffix are sanitised like generated ones
    (("EMA2dot", None), ("positive", "T2")),
    # lifespan trimming: the lists shrink from the front while the access paths are used between appends
    (("EMA2", None), ("ST2", None), ("LIFE", 120)),
    (("SMA2", "T2"), ("OBV", None), ("MACD232", None), ("LIFE", 240)),
]
from ..configs import _c
BY_LABEL["EMA2dot"] = _c("EMA2dot", "EMA", period=2, smoothing=2.5, name_suffix="s2.5")


def names_of(ind):
    """plain name plus one dotted name per field of a dict-valued reading."""
    out = [ind.name]
    for c in ind.candles:
        r = c.indicators.get(ind.name)
        if isinstance(r, dict):
            out += [f"{ind.name}.{k}" for k in r]
            break
    return out


def direct(candle, name):
    """Direct inspection of the candle's dictionaries (the ground truth the accessors are compared with)."""
    main, _, field = name.partition(".")
    for store in (candle.indicators, candle.sub_indicators):
        if main in store:
            r = store[main]
            if field:
                return r.get(field) if isinstance(r, dict) else r
            return r
    return None


def same(a, b):
    return cnum(a) == cnum(b) and (isinstance(a, bool) == isinstance(b, bool) or a is None or b is None)


def check_state(rep, hx, case):
    from hexital.utils.candles import reading_by_candle
    default_len = len(hx.candles())
    for iname, ind in hx.indicators.items():
        n = len(ind.candles)
        kind = type(ind).__name__ if type(ind).__name__ != "Amorph" else ind.name
        for name in names_of(ind):
            lst = ind.as_list(name) if name != ind.name else ind.as_list()
            hl = hx.reading_as_list(name)
            for i in range(n):
                truth = direct(ind.candles[i], name)
                paths = {
                    "Indicator.reading(i)": ind.reading(name, i),
                    "Indicator.reading(i-n)": ind.reading(name, i - n),
                    "read_candle": ind.read_candle(ind.candles[i], name),
                    "as_list[i]": lst[i],
                    "Hexital.reading_as_list[i]": hl[i] if i < len(hl) else "short-list",
                    "Hexital.reading(i-n)": hx.reading(name, i - n),
                }
                # Hexital.reading with a positive index resolves against the default manager first; it is only comparable when
                # that index cannot address a different candle there (same list, or index out of the default list's range)
                if ind.candles is hx.candles() or i >= default_len:
                    paths["Hexital.reading(i)"] = hx.reading(name, i)
                rep.inc("executions", len(paths))
                for p, v in paths.items():
                    if not same(v, truth):
                        rep.violation(f"C20|{p}!=direct|{'dotted' if '.' in name else 'plain'}",
                                      dict(case, oracle="path", name=name, index=i, path=p, got=v, want=truth))
                        return
            if n:
                latest = direct(ind.candles[-1], name)
                prev = direct(ind.candles[-2], name) if n >= 2 else None
                checks = {
                    "Indicator.reading()": (ind.reading(name), latest),
                    "Hexital.reading(name)": (hx.reading(name), latest),
                    "Hexital.prev_reading": (hx.prev_reading(name), prev),
                    "Indicator.reading_count": (ind.reading_count(name), trailing(ind, name)),
                    "Hexital.has_reading": (hx.has_reading(name), latest is not None),
                }
                if name == ind.name:
                    checks["Indicator.prev_reading()"] = (ind.prev_reading(), prev)
                    checks["Indicator.has_reading"] = (ind.has_reading, latest is not None)
                rep.inc("executions", len(checks))
                for p, (got, want) in checks.items():
                    if not same(got, want):
                        zero = "zero/False" if (latest is not None and not latest) else "value"
                        rep.violation(f"C20|{p}|{zero}", dict(case, oracle="default", name=name, path=p, got=got, want=want))
                        return
                if latest is not None and not isinstance(latest, dict) and not latest:
                    rep.add("zero_or_false_latest", (case["set"], tuple(case["raw"]), case["pos"], name))
    rep.add("nontrivial", (case["set"], tuple(case["raw"]), case["pos"]))


def trailing(ind, name):
    k = 0
    for c in reversed(ind.candles):
        if direct(c, name) is None:
            break
        k += 1
    return k


def build(members):
    from hexital import Hexital
    fill = any(l == "FILL" for l, _ in members)
    inds = [make(BY_LABEL[l], **({"timeframe": t} if t else {})) for l, t in members if l not in ("FILL", "SIGMA", "HTF", "LIFE")]
    kw = {"timeframe_fill": True} if fill else {}
    htf = next((t for l, t in members if l == "HTF"), None)
    if htf:
        kw["timeframe"] = htf
    life = next((t for l, t in members if l == "LIFE"), None)
    if life:
        from datetime import timedelta
        kw["candles_lifespan"] = timedelta(seconds=life)
    return Hexital("h", [], inds, **kw)


def explore(item):
    tier, si, first = item
    bind_repo()
    from hexital import Hexital
    rep = Report()
    sigma, n = ("UDFZ", 6) if tier == "quick" else ("UDFZJ", 7)
    members = SETS[si]
    own = next((t for l, t in members if l == "SIGMA"), None)
    rel = False
    if own:
        rel = own.startswith("REL:")
        sigma, n = own.split(":")[-1], n + 1
        if first not in sigma:
            first = sigma["UDFZJ".index(first) % len(sigma)]
    for tail in A.words(sigma, n - 1):
        word = first + tail
        if rel:  # close-to-close steps (+2/-2 bodies, +1/-1 with wicks): trends and reversals
            from .c09 import rel_stream
            raw = rel_stream(word, None)
        else:
            raw = raw_stream(word, "+", A.regular_gaps("reg", n, 120), "T2")
        hx = build(members)
        for pos in range(n):
            try:
                with deadline(3):
                    hx.append(fresh(raw[pos:pos + 1])[0])
                    rep.inc("transitions")
                    case = {"set": members, "raw": raw, "pos": pos + 1}
                    check_state(rep, hx, case)
            except Horizon:
                rep.violation("C20|horizon", {"set": members, "raw": raw, "pos": pos + 1, "oracle": "horizon"})
                break
            except Exception as e:
                rep.violation(f"C20|raised|{type(e).__name__}", {"set": members, "raw": raw, "pos": pos + 1, "oracle": "raised", "error": repr(e)})
                break
            rep.add("states", (si, word[:pos + 1]))
    rep.sample({"members": members, "stream": word, "raw": raw})
    return rep


def replay(case):
    bind_repo()
    from hexital import Hexital
    rep = Report()
    members = tuple(tuple(m) for m in case["set"])
    raw = [tuple(r) for r in case["raw"]]
    hx = build(members)
    try:
        for pos in range(case["pos"]):  # exactly the exploration's program: every access path is exercised after every append
            hx.append(fresh(raw[pos:pos + 1])[0])
            check_state(rep, hx, {"set": members, "raw": raw, "pos": pos + 1})
    except Exception:
        return True
    return bool(rep.viol)


def main(prop, tier):
    t0 = time.time()
    sigma = "UDFZ" if tier == "quick" else "UDFZJ"
    items = [(tier, si, f) for si in range(len(SETS)) for f in sigma]
    rep = merge_all(pmap(explore, items))
    rule = ("every prefix state of every stream over sigma^n appended one candle at a time to 8 Hexitals (1-3 timeframes; scalar, dict-valued, "
            "zero-valued and False-valued indicators) x every registered name (plain and each dotted field) x every in-range index, positive and "
            "negative: Indicator.reading / read_candle / as_list / Hexital.reading / reading_as_list must equal direct inspection of the candle; "
            "default-position forms, prev_reading, has_reading and reading_count checked in every state; non-trivial = distinct (set, stream, "
            "prefix) state that was checked")
    return finish(prop, tier, rep, t0, rule=rule, bounds={"sigma": sigma, "n": 6 if tier == "quick" else 7, "sets": SETS},
                  replay_confirm=replay,
                  assumptions=["Hexital.reading with a positive index is compared only where the index cannot address a different candle of the default timeframe"])
