"""C07 work per appended candle is constant: it does not grow with history length.
Engine E3: sys.monitoring (LINE + PY_START) restricted to hexital's indicator / analysis / utils code; every
append n in [1, N] of every config x host is measured - not a sample of n - and must stay below the
post-warm-up maximum."""
from __future__ import annotations

import os
import sys
import time

from .. import alphabet as A
from ..common import Report, deadline, Horizon, finish, merge_all, pmap, bind_repo, REPO_ROOT
from ..configs import ALL, PATTERNS, BY_LABEL, make
from ..drivers import fresh, raw_stream

WORD = "UDJFVLHZ"
HOSTS = ["ind", "ind-T2", "ind-T2-fill", "hex3", "hex-T2member", "ind-chunk2", "hex3-chunk3"]  # *-chunkN: N candles per append call
# chained indicators (input_value = another indicator's plain or dotted reading) inside a Hexital
CHAINED = {
    "chain:STDEV<-MACD": [("MACD", dict(fast_period=2, slow_period=3, signal_period=2)), ("STDEV", dict(period=3, input_value="MACD_2_3_2.MACD"))],
    "chain:Counter<-Supertrend": [("Supertrend", dict(period=2, multiplier=1.0)), ("Counter", dict(input_value="Supertrend_2.direction", count_value=1))],
    "chain:SMA<-EMA": [("EMA", dict(period=2)), ("SMA", dict(period=3, input_value="EMA_2"))],
    "chain:STOCH+TSI<-close": [("STOCH", dict(period=3, slow_period=2, smoothing_k=2)), ("TSI", dict(period=3))],
    "chain:BBANDS<-RSI": [("RSI", dict(period=2)), ("BBANDS", dict(period=3, input_value="RSI_2"))],
    "chain:mean_rising<-EMA": [("EMA", dict(period=2)), ("Amorph", dict(analysis="mean_rising", indicator="EMA_2", length=3))],
    # readers of a SPARSE series (None for as long as the trend points the other way): the reader keeps storing None / looks at
    # a window in which nothing is present
    "chain:highest<-Supertrend.short": [("Supertrend", dict(period=2, multiplier=1.0)), ("Amorph", dict(analysis="highest", indicator="Supertrend_2.short", length=4))],
    "chain:SMA<-Supertrend.long": [("Supertrend", dict(period=2, multiplier=1.0)), ("SMA", dict(period=3, input_value="Supertrend_2.long"))],
}
TOOL = 3  # sys.monitoring.PROFILER_ID + 1 (a free tool id)

COUNTED = ("hexital/indicators/", "hexital/analysis/", "hexital/core/indicator.py", "hexital/utils/candles.py", "hexital/utils/indexing.py")
OBSERVED = ("hexital/core/candle_manager.py", "hexital/utils/timeframe.py", "hexital/core/candle.py", "hexital/core/candlestick_type.py",
            "hexital/core/hexital.py")


class Meter:
    def __init__(self):
        self.count = 0
        self.other = 0
        self.cache = {}
        mon = sys.monitoring
        try:
            mon.use_tool_id(TOOL, "hxmc-work-meter")
        except ValueError:
            pass
        mon.register_callback(TOOL, mon.events.LINE, self.on_line)
        mon.register_callback(TOOL, mon.events.PY_START, self.on_start)
        mon.set_events(TOOL, mon.events.LINE | mon.events.PY_START)

    def klass(self, code):
        k = self.cache.get(code)
        if k is None:
            f = code.co_filename.replace(os.sep, "/")
            if any(("/" + c) in f for c in COUNTED) and f.startswith(REPO_ROOT):
                k = 1
            elif any(("/" + c) in f for c in OBSERVED) and f.startswith(REPO_ROOT):
                k = 2
            else:
                k = 0
            self.cache[code] = k
        return k

    def on_line(self, code, line):
        k = self.klass(code)
        if k == 1:
            self.count += 1
        elif k == 2:
            self.other += 1
        else:
            return sys.monitoring.DISABLE

    def on_start(self, code, off):
        k = self.klass(code)
        if k == 1:
            self.count += 1
        elif k == 2:
            self.other += 1
        else:
            return sys.monitoring.DISABLE

    def close(self):
        sys.monitoring.set_events(TOOL, 0)
        sys.monitoring.free_tool_id(TOOL)


def max_param(cfg):
    ps = [v for v in cfg["kw"].values() if isinstance(v, int) and not isinstance(v, bool)]
    return max(ps + [2])


def build(cfg, host):
    bind_repo()
    from hexital import Hexital
    if host.startswith("chain:"):
        from hexital.indicators import INDICATOR_MAP
        from hexital.analysis import MOVEMENT_MAP
        inds = []
        for cls, kw in CHAINED[host]:
            kw = dict(kw)
            if cls == "Amorph":
                kw["analysis"] = MOVEMENT_MAP[kw["analysis"]]
            inds.append(INDICATOR_MAP[cls](**kw))
        return Hexital("h", [], inds), None
    if host in ("ind", "ind-chunk2"):
        return make(cfg), None
    if host == "ind-T2":
        return make(cfg, timeframe="T2"), "T2"
    if host == "ind-T2-fill":
        return make(cfg, timeframe="T2", timeframe_fill=True), "T2"
    if host in ("hex3", "hex3-chunk3"):
        others = [c for c in ("SMA2", "RSI2", "MACD232") if c != cfg["label"]][:2]
        return Hexital("h", [], [make(cfg)] + [make(BY_LABEL[o]) for o in others]), None
    return Hexital("h", [], [make(cfg, timeframe="T2"), make(BY_LABEL["EMA3"])]), "T2"


def measure(item):
    tier, label, host, rot = item
    cfg = BY_LABEL[label]
    kind = cfg.get("cls", cfg.get("analysis")) if not host.startswith("chain:") else host
    rep = Report()
    N = 300 if tier == "quick" else 1000
    obj, tf = build(cfg, host)
    gaps = "".join("hth2"[i % 4] for i in range(N - 1)) if host == "ind-T2-fill" else ("h" * (N - 1) if tf else "t" * (N - 1))
    if isinstance(rot, int):
        word = (WORD[rot:] + WORD[:rot])
        stream = (word * (N // len(word) + 1))[:N]
        raw = raw_stream(stream, "+" if tf else "b", gaps, tf)
    else:
        # long-run streams: the worst case for anything that walks back "while the value repeats"
        word = rot
        if rot == "trend":
            from .c09 import rel_stream
            raw = rel_stream("u" * N, tf)
        else:
            raw = raw_stream({"constant": "U", "flat": "F"}[rot] * N, "+" if tf else "b", gaps, tf)
    cands = fresh(raw)
    chunk = int(host.rsplit("chunk", 1)[1]) if "chunk" in host else 1
    if chunk > 1:  # one measurement per append CALL; n counts calls
        cands = [cands[i:i + chunk] for i in range(0, len(cands) - chunk + 1, chunk)]
        N = len(cands)
    m = Meter()
    counts, other = [], []
    try:
        with deadline(120 if tier == "quick" else 900):
            for c in cands:
                a, b = m.count, m.other
                obj.append(c)
                counts.append(m.count - a)
                other.append(m.other - b)
    except Horizon:
        m.close()
        rep.violation(f"C07|horizon|{kind}|{host}", {"cfg": label, "host": host, "rot": rot, "oracle": "horizon", "tier": tier})
        return rep
    except Exception as e:
        m.close()
        rep.inc("raised_handed_to_C09")
        return rep
    m.close()
    W = 4 * max_param(cfg) + 10 + (10 if cfg in PATTERNS else 0) + (12 if host.startswith("chain:") else 0)
    if tf:
        W *= 2  # two raw candles per bucket
    if chunk > 1:
        W = W // chunk + 2  # n counts append calls here
    C = max(counts[W:3 * W])
    rep.inc("executions", N)
    rep.inc("transitions", N)
    worst = max(range(3 * W, N), key=lambda n: counts[n])
    for n in range(W, N):
        rep.add("states", (label, host, rot, n))
    # least-squares slope of events against n over every append after warm-up: constant work has slope ~0 (data-dependent
    # branches move single events), any rescan / recomputation of history adds >= 1 event per candle of history
    xs = list(range(W, N))
    mx = sum(xs) / len(xs)
    my = sum(counts[W:N]) / len(xs)
    slope = sum((x - mx) * (counts[x] - my) for x in xs) / sum((x - mx) ** 2 for x in xs)
    rep.notes["max_events_per_append"] = max(rep.notes.get("max_events_per_append", 0), C)
    rep.notes["max_abs_slope_seen"] = max(rep.notes.get("max_abs_slope_seen", 0.0), round(abs(slope), 4))
    if slope > 0.25 or counts[worst] > 1.5 * C + 20:
        rep.violation(f"C07|work-grows|{kind}", {"cfg": label, "host": host, "rot": rot, "oracle": "bounded", "tier": tier,
                                                 "bound_from_window": [W, 3 * W], "C": C, "n": worst + 1, "events": counts[worst],
                                                 "slope_events_per_candle": slope, "profile": counts[::max(1, N // 24)]})
    else:
        rep.add("nontrivial", (label, host, rot))
    # observation only (DESIGN 6 C07): growth of the candle-manager walk, which the property does not name
    if other[N - 1] > 1.5 * max(1, other[3 * W]):
        rep.add("observed_candle_manager_growth", (label, host))
    rep.sample({"cfg": label, "host": host, "word": word, "N": N, "W": W, "C": C, "events_at": {str(n + 1): counts[n] for n in (W, 3 * W, N // 2, N - 1)},
                "candle_manager_events_at": {str(n + 1): other[n] for n in (W, 3 * W, N - 1)}})
    return rep


def replay(case):
    rep = measure((case.get("tier", "quick"), case["cfg"], case["host"], case["rot"]))
    return bool(rep.viol)


def main(prop, tier):
    t0 = time.time()
    rots = (0, 3) if tier == "quick" else (0, 2, 4, 6)
    var = A.variant()
    items = [(tier, cfg["label"], host, (r + var["rot"]) % len(WORD)) for cfg in ALL + PATTERNS for host in HOSTS for r in rots]
    items += [(tier, cfg["label"], host, kind) for cfg in ALL + PATTERNS for host in (("ind", "hex3") if tier == "quick" else HOSTS[:5])
              for kind in ("constant", "flat", "trend")]
    items += [(tier, "SMA2", host, kind) for host in CHAINED for kind in (0, 3, "constant", "flat", "trend")]
    rep = merge_all(pmap(measure, items, chunksize=2))
    rule = ("every indicator config x host {standalone, T2, T2+fill, member of a 3-indicator Hexital, Hexital member on its own timeframe} x "
            "rotations of a periodic stream containing every candle shape: EVERY append n in [1,N] is measured with sys.monitoring (LINE+PY_START "
            "events inside hexital/indicators, hexital/analysis, core/indicator.py, utils/candles.py, utils/indexing.py); with W the warm-up "
            "horizon, the least-squares slope of events(n) over every n in (W,N] must be <= 0.25 events per candle of history and max events over (3W,N] <= 1.5*max over (W,3W] + 20; states = measured (config, host, rotation, n) points; "
            "non-trivial = distinct (config, host, rotation) run that completed the comparison")
    return finish(prop, tier, rep, t0, rule=rule, bounds={"N": 300 if tier == "quick" else 1000, "hosts": HOSTS, "rotations": list(rots), "word": WORD, "long_run_streams": ["constant", "flat", "trend"],
                                                         "counted": COUNTED, "observed_only": OBSERVED},
                  replay_confirm=replay,
                  assumptions=["work = executed line/call events, not seconds", "candle_manager/timeframe code is observed, not judged (the property names indicator code)"])
