"""C15 lifespan trimming keeps exactly the window and leaves its readings unchanged.
E1: lifespans x timeframes x every composition into appends x streams x every indicator config;
oracle 1 (unconditional): retained timestamps == reference window after every append;
oracle 2 (conditional): readings on retained candles == tail of an untrimmed twin on exactly the cases in
which every newly computed candle still had its (generously rounded-up) look-back retained."""
from __future__ import annotations

import time
from datetime import datetime, timedelta

from .. import alphabet as A
from ..common import Report, deadline, Horizon, finish, merge_all, pmap, bind_repo, cnum
from ..configs import ALL, BY_LABEL, make
from ..drivers import fresh, raw_stream
from ..ref import cm as R

PROBE = "UDJUDDJUJDUUJDJDUJUDJJDU"


def lookback(cfg):
    """Look-back in candles (number of retained predecessors a newly computed candle must have): the warm-up length measured
    on an untrimmed probe run and every integer parameter, at least the one predecessor the property names for purely
    recursive indicators (OBV, VWAP). No further slack: a window that holds exactly period + 1 candles is inside the clause."""
    ind = make(cfg, candles=fresh(raw_stream(PROBE)))
    ind.calculate()
    first = len(PROBE)
    for i, r in enumerate(ind.as_list()):
        vals = list(r.values()) if isinstance(r, dict) else [r]
        if r is not None and all(v is not None for k, v in (r.items() if isinstance(r, dict) else [("", r)]) if k not in ("long", "short")):
            first = i
            break
    params = [v for v in cfg["kw"].values() if isinstance(v, int) and not isinstance(v, bool)]
    return max([first] + params + [1])


PRE = ["UDJUDJDUJDUJ", "JUDDJUUDJJDU", "DJUJDUJUDUDJ"]


# purely recursive indicators: once running, a new reading needs only the previous candle (its price and its readings)
RECURSIVE = {"EMA", "RMA", "OBV", "VWAP", "ATR", "RSI", "TR", "Counter", "MACD", "KC", "TSI", "HLA", "Supertrend", "ADX"}


def spaces(tier):
    if tier == "quick":
        return dict(sigma="UDJ", n=3, lifes=(0, 1, 2, 2.5, 3, 5, 8), tfs=(None, "T2", "T2+fill"), horizon=3.0)
    return dict(sigma="UDJ", n=4, lifes=(0, 1, 2, 2.5, 3, 4.75, 5, 8, 11), tfs=(None, "T2", "T2+fill"), horizon=6.0)


def explore(item):
    tier, label, tf, host = item
    fill = bool(tf and tf.endswith("+fill"))
    tf = tf.split("+")[0] if tf else tf
    bind_repo()
    from hexital import Hexital
    sp = spaces(tier)
    cfg = BY_LABEL[label]
    kind = cfg.get("cls", cfg.get("analysis"))
    rep = Report()
    L = lookback(cfg)
    step = 120 if tf else 60
    pre = PRE[A.variant()["rot"] % len(PRE)][: (12 if tf else 6)]
    for suffix in A.words(sp["sigma"], sp["n"]):
        word = pre + suffix
        n = len(word)
        gaps = ("h" if tf else "t") * (n - 1)
        if fill:  # gaps of several buckets, some longer than the shorter lifespans
            gaps = "".join("hh5h2hhxh3hh"[i % 12] for i in range(n - 1))
        raw = raw_stream(word, "+" if tf else "b", gaps, tf)
        # untrimmed twin (batch)
        kw = {"timeframe": tf, "timeframe_fill": fill} if tf else {}
        try:
            tw = make(cfg, candles=fresh(raw), **kw)
            tw.calculate()
        except Exception:
            rep.inc("twin_raised")
            continue
        twin = [(c.timestamp.isoformat(), cnum(r)) for c, r in zip(tw.candles, tw.as_list())]
        for life in sp["lifes"]:
            lifesec = int(life * step)  # includes lifespans that are not a whole number of candles / buckets
            for comp in [pc + c for pc in ((len(pre),), (1,) * len(pre), (len(pre) - 2, 2)) for c in A.compositions(sp["n"])]:
                case = {"cfg": label, "tf": tf, "fill": fill, "host": host, "raw": raw, "life": lifesec, "comp": comp}
                try:
                    with deadline(sp["horizon"]):
                        res = run(cfg, kw, host, raw, lifesec, comp, L, tf, fill, dict(twin) if kind in RECURSIVE else None)
                except Horizon:
                    rep.violation(f"C15|horizon|{kind}", dict(case, oracle="horizon"))
                    continue
                except Exception as e:
                    rep.inc("executions")
                    # an indicator that raises because its look-back was trimmed away is outside the conditional clause
                    rep.inc("raised_" + type(e).__name__)
                    rep.add("raised_cases", (label, tf, life, comp, word))
                    continue
                rep.inc("executions")
                rep.inc("transitions", len(comp))
                window_bad, eligible, final = res
                rep.add("states", tuple(final))
                if window_bad:
                    rep.violation(f"C15|window|{host}", dict(case, oracle="window", detail=window_bad))
                    continue
                if eligible == "raised-while-eligible":
                    rep.violation(f"C15|raised-with-lookback-retained|{kind}", dict(case, oracle="raised", error=final[0], lookback=L))
                    continue
                if not eligible:
                    rep.inc("ineligible" if not (final and isinstance(final[0], str)) else "raised_after_lookback_was_trimmed")
                    continue
                rep.inc("eligible")
                tail = twin[len(twin) - len(final):]
                if final != tail:
                    rep.violation(f"C15|readings!=untrimmed|{kind}", dict(case, oracle="readings", got=final, want=tail, lookback=L))
                elif len(final) < len(twin):
                    rep.add("nontrivial", (label, tf, host, life, comp, word))
    rep.sample({"cfg": label, "tf": tf, "host": host, "lookback": L, "stream": raw})
    return rep


def run(cfg, kw, host, raw, lifesec, comp, L, tf, fill=False, running=None):
    """running: for purely recursive indicators, {timestamp: untrimmed reading}: a step is eligible as soon as the
    predecessor of the first recomputed candle is retained and the indicator is already running there."""
    from hexital import Hexital
    life = timedelta(seconds=lifesec)
    if host == "ind":
        obj = make(cfg, candles_lifespan=life, **kw)
        ind = obj
    else:
        ind = make(cfg, **({"timeframe": tf} if tf else {}))
        obj = Hexital("h", [], [ind], candles_lifespan=life, timeframe_fill=fill)
        ind = obj.indicator(ind.name)
    pos = 0
    eligible = True
    tfsec = A.tf_seconds(tf) if tf else None
    window_bad = None
    dropped = False
    for k in comp:
        chunk = raw[pos:pos + k]
        prev_last = R._secs(ind.candles[-1].timestamp.isoformat()) if ind.candles else None
        raised = None
        try:
            obj.append(fresh(chunk))
        except Exception as e:  # decided below: a violation only if this step was still inside the conditional clause
            raised = e
        pos += k
        got = [c.timestamp.isoformat() for c in ind.candles]
        # oracle 1: exactly the reference window
        allc = R.collapse(raw[:pos], tfsec) if tf else list(raw[:pos])
        if fill:
            allc = R.fill(allc, tfsec)
        want = [c[5] for c in R.trim(allc, lifesec)]
        if got != want and window_bad is None:
            window_bad = {"after": pos, "got": got, "want": want}
        if len(want) < len(allc):
            dropped = True
        # eligibility: first (re)computed candle of this append keeps L retained predecessors, or nothing was ever trimmed
        # every candle created or recomputed by this append: the previous last candle (it may have been merged into) and
        # everything after it, fill candles included
        t_new = R._secs(chunk[0][5])
        b = -((-t_new) // tfsec) * tfsec if tf else t_new
        if prev_last is not None:
            b = min(b, prev_last if tf else prev_last + 1)
        j0 = next((j for j, t in enumerate(got) if R._secs(t) >= b), len(got))
        if dropped and j0 < L:
            ok = False
            if running is not None and j0 >= 1:
                pv = running.get(got[j0 - 1])
                ok = pv is not None and not (isinstance(pv, tuple) and any(v is None for k, v in pv if k not in ("long", "short")))
            if not ok:
                eligible = False
        if raised is not None:
            return window_bad, ("raised-while-eligible" if eligible else False), [repr(raised)]
    final = [(c.timestamp.isoformat(), cnum(r)) for c, r in zip(ind.candles, ind.as_list())]
    return window_bad, eligible, final


def replay(case):
    bind_repo()
    cfg = BY_LABEL[case["cfg"]]
    raw = [tuple(r) for r in case["raw"]]
    tf = case["tf"]
    kw = {"timeframe": tf, "timeframe_fill": case.get("fill", False)} if tf else {}
    if case["oracle"] == "horizon":
        return True
    L = lookback(cfg)
    try:
        tw0 = make(cfg, candles=fresh(raw), **kw)
        tw0.calculate()
        running = {c.timestamp.isoformat(): cnum(r) for c, r in zip(tw0.candles, tw0.as_list())} if cfg.get("cls") in RECURSIVE else None
        window_bad, eligible, final = run(cfg, kw, case["host"], raw, case["life"], tuple(case["comp"]), L, tf, case.get("fill", False), running)
    except Exception:
        return True
    if case["oracle"] == "window":
        return bool(window_bad)
    tw = make(cfg, candles=fresh(raw), **kw)
    tw.calculate()
    twin = [(c.timestamp.isoformat(), cnum(r)) for c, r in zip(tw.candles, tw.as_list())]
    if eligible == "raised-while-eligible":
        return True
    return bool(eligible) and final != twin[len(twin) - len(final):]


def main(prop, tier):
    t0 = time.time()
    sp = spaces(tier)
    items = []
    for cfg in ALL:
        for tf in sp["tfs"]:
            items.append((tier, cfg["label"], tf, "ind"))
        items.append((tier, cfg["label"], None, "hex"))
        items.append((tier, cfg["label"], "T2+fill", "hex"))
    rep = merge_all(pmap(explore, items))
    rule = ("every word over sigma^n x lifespan x {base, T2} x every composition into appends (chunks larger than the window included) x every "
            "indicator config x host {Indicator, Hexital}: retained timestamps compared with the reference window after every append "
            "(unconditional); readings compared with the tail of an untrimmed twin on the eligible cases (every newly computed candle kept its "
            "rounded-up look-back, or nothing had been trimmed yet); non-trivial = distinct eligible case in which candles were actually trimmed "
            "and the comparison ran")
    return finish(prop, tier, rep, t0, rule=rule, bounds=dict(sp, configs=len(ALL), variant=A.variant()), replay_confirm=replay,
                  assumptions=["look-back per config = max(measured warm-up index, every integer parameter) + 1 candles (generous: can only shrink the checked set)"])
