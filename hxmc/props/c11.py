"""C11 Heikin-Ashi conversion follows its recurrence under every append schedule.
E1: sigma^N x every composition x preload k x {base, T2, T2+fill} x host {Indicator, Hexital default
timeframe, Hexital member timeframe}; oracle = reference HA over the reference collapse."""
from __future__ import annotations

import time

from .. import alphabet as A
from ..common import Report, deadline, Horizon, finish, merge_all, pmap, bind_repo
from ..drivers import fresh, raw_stream
from ..ref import cm as R
from ..ref import ind as RI

HOSTS = ["ind", "hexd", "hexm"]
TFCS = [(None, False), ("T2", False), ("T2", True)]
LIFE_STEPS = 3  # lifespan variant: HA values of the retained candles must be the tail of the recurrence over the whole history


def spaces(tier):
    if tier == "quick":
        return dict(sigma="UDJFQ", n=5, preloads=(0, 1, 2, 3), horizon=3.0)
    return dict(sigma="UDJFQ", n=6, preloads=(0, 1, 2, 3, 5), horizon=6.0)


def stream(word, off, gaps, tf):
    """Q is a relative letter: a flat zero-volume candle priced at (o+h+l+c)/4 of the candle before it, i.e. exactly at the
    Heikin-Ashi close of a bucket that so far holds that one candle (a quiet print that coincides with a converted value)."""
    raw = raw_stream(word.replace("Q", "F"), off, gaps, tf)
    for i, w in enumerate(word):
        if w == "Q" and i > 0:
            p = sum(raw[i - 1][:4]) / 4
            raw[i] = (p, p, p, p, 0, raw[i][5])
    return raw


def expected(raw, tf, fill):
    cs = raw
    if tf:
        cs = R.collapse(raw, A.tf_seconds(tf))
        if fill:
            cs = R.fill(cs, A.tf_seconds(tf))
    return cs, R.heikin_ashi(cs)


def execute(raw, tf, fill, host, preload, comp, life=None):
    bind_repo()
    from datetime import timedelta
    from hexital import Hexital, EMA
    first = fresh(raw[:preload])
    lkw = {"candles_lifespan": timedelta(seconds=life)} if life else {}
    if host == "ind":
        kw = dict({"timeframe": tf, "timeframe_fill": fill} if tf else {}, **lkw)
        obj = EMA(period=2, candles=first, candlestick_type="HA", **kw)
        obj.calculate()
        get = lambda: (obj.candles, obj.as_list())
    elif host == "hexd":
        kw = dict({"timeframe": tf, "timeframe_fill": fill} if tf else {}, **lkw)
        obj = Hexital("x", first, [EMA(period=2)], candlestick_type="HA", **kw)
        obj.calculate()
        get = lambda: (obj.candles(), obj.reading_as_list("EMA_2"))
    else:
        obj = Hexital("x", first, [EMA(period=2, timeframe=tf)], candlestick_type="HA", timeframe_fill=fill)
        obj.calculate()
        get = lambda: (obj.candles(tf), obj.reading_as_list(f"EMA_2_{tf}"))
    pos = preload
    for k in comp:
        obj.append(fresh(raw[pos:pos + k]))
        pos += k
    return get()


def close_to(a, b):
    return abs(a - b) <= 1e-9 * max(1.0, abs(a), abs(b))


def judge(prop, rep, case, raw, tf, fill, cands, ema):
    host = case["host"]
    base, ha = expected(raw, tf, fill)
    life = case.get("life")
    if life:
        keep = len(R.trim(ha, life))
        base, ha = base[len(base) - keep:], ha[len(ha) - keep:]
    if len(cands) != len(ha):
        rep.violation(f"C11|{host}|candle-count", dict(case, oracle="count", want=len(ha), got=len(cands)))
        return
    for i, (c, e, b) in enumerate(zip(cands, ha, base)):
        got = (c.open, c.high, c.low, c.close)
        if not all(close_to(g, w) for g, w in zip(got, e[:4])) or c.volume != e[4] or c.timestamp.isoformat() != e[5]:
            rep.violation(f"C11|{host}|ha-values", dict(case, oracle="ha", index=i, want=e, got=got + (c.volume, c.timestamp.isoformat())))
            return
        if c.tag != "Heikin-Ashi":
            rep.violation(f"C11|{host}|untagged", dict(case, oracle="tag", index=i, tag=c.tag))
            return
        cv = c.clean_values
        if not cv or any(cv.get(k) != w for k, w in zip(("open", "high", "low", "close", "volume"), b[:5])):
            rep.violation(f"C11|{host}|clean-values", dict(case, oracle="clean", index=i, want=b[:5],
                                                            got={k: cv.get(k) for k in ("open", "high", "low", "close", "volume")}))
            return
    if life:
        if len(ha) >= 2 and len(case["comp"]) >= 1:
            rep.add("nontrivial", (host, tf, fill, tuple(raw), case["preload"], case["comp"], life))
        return  # readings under trimming are C15's
    exp = RI.ema(RI.col([h[:5] for h in ha], "close"), 2, 4)
    for i, (g, e) in enumerate(zip(ema, exp)):
        if e is None:
            if g is not None:
                rep.violation(f"C11|{host}|ema-unexpected", dict(case, oracle="ema", index=i, got=g))
                return
        elif g is None or not e.contains(g, 1e-9):
            rep.violation(f"C11|{host}|ema-on-converted", dict(case, oracle="ema", index=i, got=g, want=repr(e)))
            return
    if len(ha) >= 2 and len(case["comp"]) >= 1:
        rep.add("nontrivial", (host, tf, fill, tuple(raw), case["preload"], case["comp"]))


def explore(item):
    prop, tier, tf, fill, host, first, off, life = item
    sp = spaces(tier)
    rep = Report()
    n = sp["n"]
    if host == "hexm" and not tf:
        return rep
    if life:
        life = life * (A.tf_seconds(tf) if tf else 60)
    for tail in A.words(sp["sigma"], n - 1):
        word = first + tail
        gaps = A.regular_gaps("mix" if fill else "reg", n, A.tf_seconds(tf)) if tf else None
        raw = stream(word, off if tf else "b", gaps, tf)
        for k in sp["preloads"]:
            if k > n:
                continue
            for comp in (A.compositions(n - k) if k < n else [()]):
                case = {"tf": tf, "fill": fill, "host": host, "raw": raw, "preload": k, "comp": comp, "life": life}
                try:
                    with deadline(sp["horizon"]):
                        cands, ema = execute(raw, tf, fill, host, k, comp, life)
                except Horizon:
                    rep.inc("executions")
                    rep.violation(f"C11|{host}|horizon", dict(case, oracle="horizon"))
                    rep.inc("horizon_hits")
                    if rep.n["horizon_hits"] >= 2:
                        rep.inc("shards_cut_short_after_horizon")
                        return rep  # a non-terminating configuration: report it, do not burn the budget on it
                    continue
                except Exception as e:
                    rep.inc("executions")
                    rep.violation(f"C11|{host}|raised|{type(e).__name__}", dict(case, oracle="raised", error=repr(e)))
                    continue
                rep.inc("executions")
                rep.inc("transitions", len(comp) + 1)
                rep.add("states", tuple((c.open, c.high, c.low, c.close, c.tag) for c in cands))
                judge(prop, rep, case, raw, tf, fill, cands, ema)
        rep.sample({"tf": tf, "fill": fill, "host": host, "raw": raw, "expected_ha": expected(raw, tf, fill)[1]})
    return rep


def replay(case):
    rep = Report()
    raw = [tuple(r) for r in case["raw"]]
    case = dict(case, comp=tuple(case["comp"]))
    try:
        with deadline(15):
            cands, ema = execute(raw, case["tf"], case["fill"], case["host"], case["preload"], case["comp"], case.get("life"))
    except BaseException:
        return True
    judge("C11", rep, case, raw, case["tf"], case["fill"], cands, ema)
    return bool(rep.viol)


def main(prop, tier):
    t0 = time.time()
    sp = spaces(tier)
    items = [(prop, tier, tf, fill, host, f, off, None) for (tf, fill) in TFCS for host in HOSTS for f in sp["sigma"]
             for off in (("+", "b") if tf else ("b",))]
    items += [(prop, tier, tf, fill, host, f, "+", LIFE_STEPS) for (tf, fill) in TFCS[:2] for host in ("ind", "hexd") for f in sp["sigma"]]
    rep = merge_all(pmap(explore, items))
    rule = ("(Q = flat zero-volume candle at the ohlc/4 of its predecessor) every word over sigma^n x preload k x every composition of the remaining candles into appends x {base, T2, T2+fill} x host "
            "{Indicator, Hexital default timeframe, Hexital member timeframe} with candlestick_type=HA; every candle compared with the reference "
            "Heikin-Ashi recurrence over the reference collapse, raw values recoverable from clean_values, tags present, EMA(2) readings within "
            "the interval reference over the converted closes; first candle on and off a bucket boundary; a lifespan variant compares the retained "
            "candles with the tail of the recurrence over the whole history; non-trivial = distinct case with >= 2 converted candles and >= 1 append")
    return finish(prop, tier, rep, t0, rule=rule, bounds=dict(sp, tfcs=TFCS, hosts=HOSTS, variant=A.variant()), replay_confirm=replay,
                  assumptions=["TZ=UTC", "HA arithmetic compared at 1e-9 relative tolerance (operation order is free)"])
