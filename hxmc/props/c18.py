"""C18 timeframe bucketing does not depend on the process time zone.
Engine E4: one child process per zone (TZ is process-global state), identical deterministic case
enumeration in every child, per-case digests compared against the UTC child and the reference."""
from __future__ import annotations

import hashlib
import json
import os
import subprocess
import sys
import time
from concurrent.futures import ThreadPoolExecutor
from datetime import datetime

from .. import alphabet as A
from ..common import Report, finish, bind_repo, VERIF_ROOT, REPO_ROOT, harness_error, deadline
from ..ref import cm as R
from .c03 import view, rview, GAPS, FIRSTS

ZONES = ["UTC", "Asia/Kolkata", "Asia/Kathmandu", "Australia/Adelaide", "Australia/Lord_Howe", "Pacific/Chatham",
         "America/St_Johns", "America/New_York", "Europe/London", "Pacific/Kiritimati", "Etc/GMT+12"]
TFS = ["S30", "T1", "T5", "T7", "T10", "T20", "T30", "T45", "H1", "H4", "H5", "D1", "D2", "D7"]
BASES = ["2024-01-15T00:00:00", "2024-03-10T01:30:00", "2024-11-03T00:30:00", "2024-03-31T00:30:00",
         "2024-10-27T00:30:00", "2024-04-07T01:15:00", "2024-10-06T01:30:00", "2024-09-29T02:15:00"]
WORD = "UDJLHFVZ"


def spaces(tier):
    if tier == "quick":
        return dict(n=3, bases=BASES, tfs=TFS)
    return dict(n=4, bases=BASES, tfs=TFS)


def cases(tier):
    sp = spaces(tier)
    for tf in sp["tfs"]:
        tfsec = A.tf_seconds(tf)
        for base in sp["bases"]:
            b = datetime.fromisoformat(base)
            for first in FIRSTS:
                for n in range(2, sp["n"] + 1):
                    for gaps in A.words(GAPS, n - 1):
                        ts = A.timestamps(first, gaps, tfsec, b)
                        raw = [A.shape(WORD[i % 8], {"tick": 1.0, "offset": 0}) + (t.isoformat(),) for i, t in enumerate(ts)]
                        for host in ("cm", "ind", "cm+fill", "cm-iso"):
                            for supply in ("ctor", "append1", "appendall"):
                                if host == "ind" and supply == "appendall":
                                    continue
                                if host == "cm-iso" and supply == "ctor":
                                    continue  # dict candles with ISO-string timestamps only enter through append
                                yield (tf, base, first, gaps, host, supply), raw


def execute(raw, tf, host, supply):
    from hexital.core.candle_manager import CandleManager
    from hexital.indicators import SMA
    from ..drivers import fresh

    k = len(raw) if supply == "ctor" else 0
    if host == "cm-iso":
        obj = CandleManager([], timeframe=tf)
        rows = [{"open": o, "high": h, "low": l, "close": c, "volume": v, "timestamp": t} for o, h, l, c, v, t in raw]
        if supply == "appendall":
            obj.append(rows)
        else:
            for r in rows:
                obj.append(r)
        return view(obj.candles)
    if host.startswith("cm"):
        obj = CandleManager(fresh(raw[:k]), timeframe=tf, timeframe_fill=host.endswith("+fill"))
    else:
        obj = SMA(period=2, candles=fresh(raw[:k]), timeframe=tf)
    if supply == "appendall":
        obj.append(fresh(raw))
    else:
        for i in range(k, len(raw)):
            obj.append(fresh(raw[i:i + 1]))
    return view(obj.candles)


def child(tier):
    """Runs inside a process started with TZ=<zone>; prints one digest per case."""
    time.tzset()
    bind_repo()
    zone = os.environ.get("TZ")
    out = []
    refbad = []
    from .. import common as _common
    group = None
    measured = 0  # measured horizon hits in this child; after 9 (three exhausted groups) the rest of the enumeration is skipped:
    #               a change that hangs in one zone must yield a verdict in minutes, not exhaust the child's time limit
    for idx, (key, raw) in enumerate(cases(tier)):
        if measured >= 9:
            out.append("SKIPPED")
            continue
        if key[:2] != group:  # the horizon fast-fail budget is per (timeframe, base date), not for the whole child
            group = key[:2]
            _common._HORIZON_HITS[0] = 0
        try:
            with deadline(3):
                got = execute(raw, key[0], key[4], key[5])
            d = hashlib.sha1(repr(got).encode()).hexdigest()[:16]
        except BaseException as e:
            d = "RAISED:" + type(e).__name__
            got = None
            if isinstance(e, _common.Horizon) and not _common._SKIPPED[0]:
                measured += 1
        out.append(d)
        if zone == "UTC" and got is not None:
            ref = R.collapse(raw, A.tf_seconds(key[0]))
            if key[4].endswith("+fill"):
                ref = R.fill(ref, A.tf_seconds(key[0]))
            if got != rview(ref):
                refbad.append(idx)
    # sanity: the zone really took effect in this process
    off = datetime(2024, 1, 15, 12).astimezone().utcoffset().total_seconds()
    print(json.dumps({"zone": zone, "utcoffset_jan": off, "digests": out, "refbad": refbad}))


def run_child(zone, tier):
    env = dict(os.environ)
    env["TZ"] = zone
    env["PYTHONHASHSEED"] = "0"
    env["PYTHONDONTWRITEBYTECODE"] = "1"
    r = subprocess.run(["/venv/bin/python", "-m", "hxmc.props.c18", "--child", tier], cwd=VERIF_ROOT, env=env,
                       capture_output=True, text=True, timeout=3000)
    if r.returncode != 0:
        harness_error(f"C18 child for {zone} failed: {r.stderr[-1500:]}")
    return json.loads(r.stdout.strip().splitlines()[-1])


def one_case(zone, key, raw):
    """Run a single case in a fresh child under `zone` (used for replay confirmation)."""
    code = ("import sys,json;sys.path.insert(0,%r);from hxmc.common import bind_repo;bind_repo();"
            "from hxmc.props.c18 import execute;d=json.load(sys.stdin);"
            "print(json.dumps(execute([tuple(r) for r in d['raw']],d['tf'],d['host'],d['supply'])))") % VERIF_ROOT
    env = dict(os.environ, TZ=zone, PYTHONHASHSEED="0", PYTHONDONTWRITEBYTECODE="1")
    try:
        r = subprocess.run(["/venv/bin/python", "-c", code], input=json.dumps({"raw": raw, "tf": key[0], "host": key[4], "supply": key[5]}),
                           env=env, capture_output=True, text=True, cwd=VERIF_ROOT, timeout=30)
    except subprocess.TimeoutExpired:
        return "HORIZON"
    if r.returncode != 0:
        return "RAISED"
    return json.loads(r.stdout.strip().splitlines()[-1])


def replay(case):
    raw = [tuple(r) for r in case["raw"]]
    key = tuple(case["key"])
    a = one_case("UTC", key, raw)
    b = one_case(case["zone"], key, raw)
    ref = R.collapse(raw, A.tf_seconds(key[0]))
    if key[4].endswith("+fill"):
        ref = R.fill(ref, A.tf_seconds(key[0]))
    ref = json.loads(json.dumps(rview(ref)))
    return a != b or a != ref


def main(prop, tier):
    t0 = time.time()
    expected_off = {"UTC": 0, "Asia/Kolkata": 19800, "Asia/Kathmandu": 20700, "Australia/Adelaide": 37800,
                    "Australia/Lord_Howe": 39600, "Pacific/Chatham": 49500, "America/St_Johns": -12600,
                    "America/New_York": -18000, "Europe/London": 0, "Pacific/Kiritimati": 50400, "Etc/GMT+12": -43200}
    with ThreadPoolExecutor(len(ZONES)) as ex:
        res = list(ex.map(lambda z: run_child(z, tier), ZONES))
    rep = Report()
    allcases = list(cases(tier))
    utc = res[0]
    for z, r in zip(ZONES, res):
        if r["utcoffset_jan"] != expected_off[z]:
            harness_error(f"zone {z} did not take effect in the child (offset {r['utcoffset_jan']})")
        if len(r["digests"]) != len(allcases):
            harness_error("child enumerations differ in length")
    for idx in utc["refbad"]:
        key, raw = allcases[idx]
        rep.violation(f"C18|utc!=reference|{key[0][0]}|{key[4]}", {"zone": "UTC", "key": key, "raw": raw, "oracle": "reference"})
    for z, r in zip(ZONES[1:], res[1:]):
        for idx, (d, u) in enumerate(zip(r["digests"], utc["digests"])):
            if d == "SKIPPED" or u == "SKIPPED":
                rep.inc("skipped_after_horizon")
                continue
            rep.inc("executions")
            if d != u:
                key, raw = allcases[idx]
                rep.violation(f"C18|zone!=utc|{key[0][0]}|{key[4]}", {"zone": z, "key": key, "raw": raw, "oracle": "zone!=utc"})
    rep.inc("executions", len(allcases))
    rep.inc("transitions", sum((len(raw) if key[5] != "ctor" else 1) for key, raw in allcases) * len(ZONES))
    for d in utc["digests"]:
        rep.add("states", d)
    for (key, raw), d in zip(allcases, utc["digests"]):
        if len(R.collapse(raw, A.tf_seconds(key[0]))) < len(raw):
            rep.add("nontrivial", key)
    for i in (0, len(allcases) // 2, len(allcases) - 1):
        rep.sample({"key": allcases[i][0], "raw": allcases[i][1], "utc_digest": utc["digests"][i]})
    rule = ("every (timeframe, base date incl. DST transition days, first-candle offset, gap word, host, supply) case is executed once "
            "in a separate process per zone; digests of the collapsed candles must be identical to the UTC child's, and the UTC child's equal "
            "to the reference; non-trivial = distinct case in which at least two candles share a bucket")
    return finish(prop, tier, rep, t0, rule=rule, exhaustive=not rep.n.get("skipped_after_horizon"),
                  bounds={"zones": ZONES, "timeframes": spaces(tier)["tfs"], "bases": BASES, "n": spaces(tier)["n"], "gaps": GAPS, "firsts": FIRSTS},
                  replay_confirm=replay, assumptions=["tzdata of the image; listed zones only", "timezone-naive timestamps"])


if __name__ == "__main__":
    if len(sys.argv) >= 3 and sys.argv[1] == "--child":
        child(sys.argv[2])
