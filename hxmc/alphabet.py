"""Finite alphabets: candle shapes, gap words, timeframes, compositions. No randomness anywhere:
VERIF_SEED only selects a member of a fixed family of alphabets (price offset, tick, base date)."""
from __future__ import annotations

import itertools
from datetime import datetime, timedelta

from .common import seed

# (open, high, low, close, volume) -- see DESIGN.md section 4
SHAPES = {
    "U": (10, 12, 9, 11, 5),
    "D": (11, 11, 8, 9, 7),
    "F": (9, 9, 9, 9, 0),
    "J": (9, 14, 9, 13, 5),
    "V": (10, 12, 9, 11, 8),
    "Z": (10, 11, 9, 10, 0),
    "L": (12, 13, 6, 7, 9),   # big down move
    "H": (13, 16, 12, 15, 3),  # higher level up candle
}

_OFFSETS = [0, 90, 14990]
_TICKS = [1.0, 0.25, 1.0]
_BASES = [datetime(2024, 3, 4, 0, 0, 0), datetime(2023, 11, 14, 12, 0, 0), datetime(2025, 1, 1, 0, 0, 0)]


def variant():
    s = seed()
    return {"offset": _OFFSETS[s % 3], "tick": _TICKS[(s // 3) % 3], "base": _BASES[(s // 9) % 3], "rot": s % 7}


def shape(letter, var=None):
    var = var or variant()
    o, h, l, c, v = SHAPES[letter]
    t, off = var["tick"], var["offset"]
    return (o * t + off, h * t + off, l * t + off, c * t + off, v * var["volscale"] if "volscale" in var else v)


TF_SECONDS = {"S": 1, "T": 60, "H": 3600, "D": 86400}


def tf_seconds(tf):
    if tf is None:
        return 60
    return TF_SECONDS[tf[0].upper()] * int(tf[1:])


def words(sigma, n):
    """All words of length exactly n over sigma, in lexicographic (simplest-first) order."""
    return ("".join(w) for w in itertools.product(sigma, repeat=n))


def words_upto(sigma, n, lo=1):
    for k in range(lo, n + 1):
        yield from words(sigma, k)


def compositions(n):
    """All compositions of n (ordered chunk sizes), fewest chunks first."""
    out = []
    for bits in range(2 ** (n - 1)) if n > 0 else []:
        comp, run = [], 1
        for i in range(n - 1):
            if bits >> i & 1:
                comp.append(run)
                run = 1
            else:
                run += 1
        comp.append(run)
        out.append(tuple(comp))
    out.sort(key=lambda c: (len(c), c))
    return out


# gap classes, relative to timeframe step `tf` seconds (base step for no-timeframe runs = 60 s)
def gap_seconds(g, tf):
    return {
        "0": 0,                 # duplicate timestamp
        "1": 1,
        "h": max(1, tf // 2),
        "m": max(1, tf - 1),
        "t": tf,
        "p": tf + 1,
        "2": 2 * tf,
        "x": 2 * tf + max(1, tf // 2),
        "5": 5 * tf + 1,
        "3": 3 * tf,
    }[g]


def first_offset_seconds(f, tf):
    return {"b": 0, "+": 1, "m": max(1, tf // 2), "-": tf - 1 if tf > 1 else 0}[f]


def timestamps(first, gaps, tf, base=None):
    """first: offset class of the first candle; gaps: word over gap classes (len n-1)."""
    base = base or variant()["base"]
    t = base + timedelta(seconds=first_offset_seconds(first, tf))
    out = [t]
    for g in gaps:
        t = t + timedelta(seconds=gap_seconds(g, tf))
        out.append(t)
    return out


def regular_gaps(kind, n, tf):
    """Named gap patterns used by indicator-centred checks (plumbing varied elsewhere)."""
    if kind == "reg":      # one candle per half timeframe -> two candles per bucket
        return "h" * (n - 1)
    if kind == "step":     # exactly one timeframe apart
        return "t" * (n - 1)
    if kind == "mix":      # same bucket, next bucket, skip one bucket, ...
        pat = "hth2hpx"
        return "".join(pat[i % len(pat)] for i in range(n - 1))
    if kind == "gappy":
        pat = "2h5t"
        return "".join(pat[i % len(pat)] for i in range(n - 1))
    raise KeyError(kind)
