"""Entry point: ./run Cxx [--tier quick|thorough] [--replay file]"""
import importlib
import json
import os
import sys
import time

from .common import bind_repo

MODULES = {
    "C01": "c01", "C02": "c01", "C03": "c03", "C12": "c03", "C18": "c18", "C09": "c09", "C10": "c09", "C11": "c11", "C08": "c08", "C16": "c16", "C17": "c17", "C13": "c14", "C14": "c14", "C19": "c19", "C20": "c20", "C15": "c15", "C07": "c07", "C04": "c04", "C05": "c04", "C06": "c04",
}


def main(argv):
    if not argv:
        print("usage: run Cxx [--tier quick|thorough] [--replay file]")
        return 2
    prop = argv[0].upper()
    tier = os.environ.get("VERIF_TIER", "quick")
    replay = None
    i = 1
    while i < len(argv):
        if argv[i] == "--tier":
            tier = argv[i + 1]; i += 2
        elif argv[i] == "--replay":
            replay = argv[i + 1]; i += 2
        else:
            print("unknown argument", argv[i]); return 2
    if tier not in ("quick", "thorough"):
        tier = "quick"
    time.tzset()
    bind_repo()
    mod = importlib.import_module(f"hxmc.props.{MODULES[prop]}")
    if replay:
        doc = json.load(open(replay))
        bad = mod.replay(doc["case"])
        if bad:
            print(f"  replay reproduces: {doc.get('sig')}")
            print(f"VIOLATION property={prop} replay={replay}")
            return 1
        print(f"replay of {replay}: property holds on this tree")
        return 0
    return mod.main(prop, tier)


if __name__ == "__main__":
    try:
        rc = main(sys.argv[1:])
    except SystemExit:
        raise
    except BaseException:  # a crash of the machinery is a harness error (2), never a verdict about the code under test
        import traceback
        traceback.print_exc()
        print("HARNESS ERROR: unexpected exception in the checker", file=sys.stderr)
        sys.exit(2)
    sys.exit(rc)
