"""Indicator configuration pool: all 27 shipped classes with small periods, plus Amorph wrappers
over every pattern / movement function. A config is (label, kind, name, kwargs)."""
from __future__ import annotations

from .common import bind_repo


def _c(label, cls, **kw):
    return {"label": label, "cls": cls, "kw": kw}


def _a(label, fn, **kw):
    return {"label": label, "analysis": fn, "kw": kw}


# small-parameter configurations of every shipped class (periods 2..4)
CORE = [
    _c("SMA2", "SMA", period=2),
    _c("SMA3", "SMA", period=3),
    _c("SMA2h", "SMA", period=2, input_value="high"),
    _c("EMA2", "EMA", period=2),
    _c("EMA3", "EMA", period=3),
    _c("EMA2s3", "EMA", period=2, smoothing=3.0, name_suffix="s3"),
    _c("RMA2", "RMA", period=2),
    _c("RMA3", "RMA", period=3),
    _c("WMA2", "WMA", period=2),
    _c("WMA3", "WMA", period=3),
    _c("VWMA2", "VWMA", period=2),
    _c("VWMA3", "VWMA", period=3),
    _c("HMA4", "HMA", period=4),
    _c("HMA6", "HMA", period=6),
    _c("TR", "TR"),
    _c("ATR2", "ATR", period=2),
    _c("ATR3", "ATR", period=3),
    _c("STDEV2", "STDEV", period=2),
    _c("STDEV3", "STDEV", period=3),
    _c("BBANDS2", "BBANDS", period=2),
    _c("BBANDS3", "BBANDS", period=3),
    _c("KC2", "KC", period=2, multiplier=1.0),
    _c("KC3", "KC", period=3, multiplier=2.0),
    _c("DON2", "donchian", period=2),
    _c("DON3", "donchian", period=3),
    _c("HL2", "HL", period=2),
    _c("HL3", "HL", period=3),
    _c("HLA", "HLA"),
    _c("ST2", "Supertrend", period=2, multiplier=1.0),
    _c("ST3", "Supertrend", period=3, multiplier=2.0),
    _c("STDEVTHRES2", "STDEVTHRES", period=2, multiplier=1.0),
    _c("STDEVTHRES3", "STDEVTHRES", period=3, multiplier=2.0),
    _c("COUNTvol", "Counter", input_value="volume", count_value=5),
    _c("RSI2", "RSI", period=2),
    _c("RSI3", "RSI", period=3),
    _c("MACD232", "MACD", fast_period=2, slow_period=3, signal_period=2),
    _c("MACD243", "MACD", fast_period=2, slow_period=4, signal_period=3),
    _c("ROC2", "ROC", period=2),
    _c("ROC3", "ROC", period=3),
    _c("STOCH222", "STOCH", period=2, slow_period=2, smoothing_k=2),
    _c("STOCH323", "STOCH", period=3, slow_period=2, smoothing_k=3),
    _c("TSI2", "TSI", period=2),
    _c("TSI3", "TSI", period=3),
    _c("AROON2", "aroon", period=2),
    _c("AROON3", "aroon", period=3),
    _c("ADX22", "ADX", period=2, period_signal=2),
    _c("ADX32", "ADX", period=3, period_signal=2),
    _c("OBV", "OBV"),
    _c("VWAP", "VWAP"),
]

# Amorph wrappers over every entry of MOVEMENT_MAP and PATTERN_MAP
WRAPPERS = [
    _a("positive", "positive"),
    _a("negative", "negative"),
    _a("rising2", "rising", indicator="close", length=2),
    _a("falling2", "falling", indicator="close", length=2),
    _a("mean_rising2", "mean_rising", indicator="close", length=2),
    _a("mean_falling2", "mean_falling", indicator="close", length=2),
    _a("highest2", "highest", indicator="high", length=2),
    _a("lowest2", "lowest", indicator="low", length=2),
    _a("highestbar3", "highestbar", indicator="high", length=3),
    _a("lowestbar3", "lowestbar", indicator="low", length=3),
    _a("value_range3", "value_range", indicator="close", length=3),
    _a("cross2", "cross", indicator_one="close", indicator_two="open", length=2),
    _a("crossover2", "crossover", indicator_one="close", indicator_two="open", length=2),
    _a("crossunder2", "crossunder", indicator_one="close", indicator_two="open", length=2),
]
PATTERNS = [
    _a("doji", "doji"),
    _a("dojistar", "dojistar"),
    _a("hammer", "hammer"),
    _a("inv_hammer", "inv_hammer"),
]

ALL = CORE + WRAPPERS

BY_LABEL = {c["label"]: c for c in CORE + WRAPPERS + PATTERNS}


def make(cfg, **extra):
    """Fresh indicator instance for cfg; extra = host kwargs (candles, timeframe, ...)."""
    hx = bind_repo()
    from hexital.indicators import INDICATOR_MAP
    from hexital.analysis import MOVEMENT_MAP, PATTERN_MAP

    kw = dict(cfg["kw"])
    kw.update(extra)
    if "cls" in cfg:
        return INDICATOR_MAP[cfg["cls"]](**kw)
    fn = (PATTERN_MAP | MOVEMENT_MAP)[cfg["analysis"]]
    return INDICATOR_MAP["Amorph"](analysis=fn, **kw)


def as_dict(cfg, **extra):
    """The config-dict form accepted by Hexital."""
    kw = dict(cfg["kw"])
    kw.update(extra)
    if "cls" in cfg:
        return {"indicator": cfg["cls"], **kw}
    own = {k: kw.pop(k) for k in list(kw) if k in ("timeframe", "timeframe_fill", "round_value", "name_suffix", "fullname_override")}
    d = {"analysis": cfg["analysis"], **own}
    if kw:
        d["args"] = kw  # analysis arguments travel in 'args' ('indicator' would clash with the dict key)
    return d
