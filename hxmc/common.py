"""Shared infrastructure: repo binding, canonical snapshots, guarded parallel execution,
violation/replay writer, known-findings matcher, evidence writer.

Everything here is driven by the real `hexital` package imported from VERIF_REPO (default /repo).
"""
from __future__ import annotations

import hashlib
import json
import math
import multiprocessing as mp
import os
import resource
import signal
import subprocess
import sys
import time
import traceback
from datetime import datetime, timedelta

VERIF_ROOT = os.path.dirname(os.path.dirname(os.path.abspath(__file__)))
REPO_ROOT = os.path.abspath(os.environ.get("VERIF_REPO", "/repo"))
NPROC = int(os.environ.get("VERIF_NPROC", "16"))


def seed() -> int:
    try:
        return int(os.environ.get("VERIF_SEED", "0"))
    except ValueError:
        return 0


def bind_repo():
    """Import hexital from REPO_ROOT's working tree (never a stale copy)."""
    if sys.path[0] != REPO_ROOT:
        sys.path.insert(0, REPO_ROOT)
    import hexital  # noqa

    f = os.path.abspath(hexital.__file__)
    if not f.startswith(REPO_ROOT + os.sep):
        raise SystemExit(f"HARNESS ERROR: hexital imported from {f}, expected under {REPO_ROOT}")
    return hexital


# --------------------------------------------------------------------------- canon


def cnum(x):
    """Canonical form of one stored value. Numbers compare by value (1 == 1.0), bit-exact."""
    if x is None or isinstance(x, (bool, str)):
        return x
    if isinstance(x, int):
        if abs(x) < 2**53:
            return float(x).hex()
        return ("I", x)
    if isinstance(x, float):
        if math.isfinite(x):
            return (x + 0.0).hex() if x != 0 else (0.0).hex()
        return ("NF", repr(x))
    if isinstance(x, dict):
        return tuple(sorted((str(k), cnum(v)) for k, v in x.items()))
    if isinstance(x, (list, tuple)):
        return tuple(cnum(v) for v in x)
    if isinstance(x, datetime):
        return ("T", x.isoformat())
    if isinstance(x, timedelta):
        return ("TD", x.total_seconds())
    return ("R", repr(x))


def canon_candle(c, with_clean=False):
    base = (
        c.timestamp.isoformat() if c.timestamp is not None else None,
        cnum(c.open),
        cnum(c.high),
        cnum(c.low),
        cnum(c.close),
        cnum(c.volume),
        cnum(c.indicators),
        cnum(c.sub_indicators),
    )
    if with_clean:
        cv = {k: v for k, v in c.clean_values.items() if k in ("open", "high", "low", "close", "volume", "timestamp")}
        base = base + (c.tag, cnum(cv))
    return base


def canon_candles(candles, with_clean=False):
    return tuple(canon_candle(c, with_clean) for c in candles)


def plain_candle(c):
    """JSON-friendly rendering for replay files and samples."""
    return {
        "t": c.timestamp.isoformat() if c.timestamp is not None else None,
        "ohlcv": [c.open, c.high, c.low, c.close, c.volume],
        "ind": jsonable(c.indicators),
        "sub": jsonable(c.sub_indicators),
    }


def jsonable(x):
    if x is None or isinstance(x, (bool, int, str)):
        return x
    if isinstance(x, float):
        return x if math.isfinite(x) else repr(x)
    if isinstance(x, dict):
        return {str(k): jsonable(v) for k, v in x.items()}
    if isinstance(x, (list, tuple, set, frozenset)):
        return [jsonable(v) for v in x]
    if isinstance(x, datetime):
        return x.isoformat()
    if isinstance(x, timedelta):
        return {"seconds": x.total_seconds()}
    return repr(x)


def first_diff(a, b, path=""):
    """Human-readable location of the first difference between two canon tuples."""
    if type(a) != type(b):
        return f"{path}: {a!r} != {b!r}"
    if isinstance(a, tuple):
        if len(a) != len(b):
            return f"{path}: len {len(a)} != {len(b)}"
        for i, (x, y) in enumerate(zip(a, b)):
            if x != y:
                return first_diff(x, y, f"{path}[{i}]")
        return None
    if a != b:
        return f"{path}: {a!r} != {b!r}"
    return None


# --------------------------------------------------------------------------- guards


class Horizon(Exception):
    """An execution did not finish inside its horizon."""


def _alarm(signum, frame):
    raise Horizon("execution exceeded its time horizon")


_HORIZON_HITS = [0]
HORIZON_LIMIT = 3
_SKIPPED = [False]  # the Horizon just raised was a fast-fail skip, not a measured time-out


class deadline:
    """Horizon for one execution, measured in CPU seconds of this process (ITIMER_PROF): the library is pure computation, so
    a non-terminating execution burns CPU, while a machine that is merely busy (other checks running) cannot make a finite
    execution look endless. A wall-clock backstop of 20x (at least 60 s) covers the unexpected blocking case.
    After HORIZON_LIMIT hits inside one work item the remaining executions of that item are skipped (counted as
    `skipped_after_horizon`, not reported under a signature of their own - they were never run, so they could not be
    replayed): a non-terminating configuration must not burn the budget; the measured hits are the violations."""

    def __init__(self, seconds: float):
        self.seconds = seconds

    def __enter__(self):
        if _HORIZON_HITS[0] >= HORIZON_LIMIT:
            _SKIPPED[0] = True
            raise Horizon("skipped: this work item already exceeded its horizon %d times" % HORIZON_LIMIT)
        _SKIPPED[0] = False
        signal.signal(signal.SIGPROF, _alarm)
        signal.signal(signal.SIGALRM, _alarm)
        signal.setitimer(signal.ITIMER_PROF, self.seconds)
        signal.setitimer(signal.ITIMER_REAL, max(60.0, 20 * self.seconds))

    def __exit__(self, et, ev, tb):
        signal.setitimer(signal.ITIMER_PROF, 0)
        signal.setitimer(signal.ITIMER_REAL, 0)
        if et is not None and issubclass(et, Horizon):
            _HORIZON_HITS[0] += 1
        return False


def _worker_init():
    lim = 4 * 1024**3
    try:
        resource.setrlimit(resource.RLIMIT_AS, (lim, lim))
    except Exception:
        pass
    os.environ["TZ"] = os.environ.get("TZ", "UTC")
    time.tzset()
    bind_repo()


def _call(args):
    func, idx, item = args
    _HORIZON_HITS[0] = 0
    try:
        res = func(item)
        if isinstance(res, Report):
            res.compact()
        return idx, res, None
    except BaseException as e:  # harness error inside a worker: never a silent pass
        return idx, None, f"{type(e).__name__}: {e}\n{traceback.format_exc()}"


_EARLY_STOPPED = [False]
_KNOWN_KEYS = []


def _known_keys():
    if not _KNOWN_KEYS:
        _KNOWN_KEYS.append({k["key"] for k in load_known()})
    return _KNOWN_KEYS[0]


def pmap(func, items, nproc=None, chunksize=1):
    """Deterministic parallel map (results in item order). Worker death or an exception in
    `func` is a harness error (exit 2), never a pass."""
    items = list(items)
    nproc = nproc or NPROC
    if _EARLY_STOPPED[0]:
        return [None] * len(items)
    if nproc <= 1 or len(items) <= 1:
        _worker_init()
        out = []
        for i, it in enumerate(items):
            idx, res, err = _call((func, i, it))
            if err:
                harness_error(err)
            out.append(res)
        return out
    ctx = mp.get_context("fork")
    results = [None] * len(items)
    got = 0
    stop_early = os.environ.get("VERIF_STOP_ON_FIRST") == "1"  # detection runs against seeded changes only: never set by the registered commands
    stopped = False
    with ctx.Pool(nproc, initializer=_worker_init) as pool:
        for idx, res, err in pool.imap_unordered(_call, [(func, i, it) for i, it in enumerate(items)], chunksize):
            if err:
                pool.terminate()
                harness_error(err)
            results[idx] = res
            got += 1
            if stop_early and any(v["sig"] not in _known_keys() for v in (getattr(res, "viol", None) or [])):
                pool.terminate()
                stopped = True
                break
    if stopped:
        _EARLY_STOPPED[0] = True
        print(f"(stopped after the first violating shard: {got} of {len(items)} shards; not an exhaustive run)")
        return results
    if got != len(items):
        harness_error(f"only {got} of {len(items)} shards returned (worker died?)")
    return results


def harness_error(msg):
    sys.stdout.flush()
    print("HARNESS ERROR:", msg, file=sys.stderr)
    sys.stderr.flush()
    os._exit(2)


# --------------------------------------------------------------------------- report


class Report:
    """Per-shard counters; merged by the parent in enumeration order."""

    def __init__(self):
        self.n = {}  # named counters
        self.viol = []  # list of violation dicts (bounded)
        self.samples = []
        self.sets = {}  # named sets of hashes (distinct counting inside one shard)
        self.setcount = {}  # distinct counts of finished shards (shards explore disjoint sub-spaces, so counts add up)
        self.notes = {}

    MAXV = 40

    def inc(self, k, d=1):
        self.n[k] = self.n.get(k, 0) + d

    def add(self, setname, key):
        s = self.sets.get(setname)
        if s is None:
            s = self.sets[setname] = set()
        s.add(hash(key) if not isinstance(key, int) else key)

    def violation(self, sig, case):
        """sig: stable structured signature string (what fails); case: replayable dict."""
        if _SKIPPED[0] and "horizon" in sig:
            _SKIPPED[0] = False
            self.inc("skipped_after_horizon")
            return
        self.inc("violations_raw")
        for v in self.viol:
            if v["sig"] == sig:
                v["count"] += 1
                return
        if len(self.viol) < self.MAXV:
            self.viol.append({"sig": sig, "case": case, "count": 1})

    def compact(self):
        """Called when a shard is finished: keep the number of distinct keys, drop the keys (memory of long runs)."""
        for k, v in self.sets.items():
            self.setcount[k] = self.setcount.get(k, 0) + len(v)
        self.sets = {}
        return self

    def distinct(self, name):
        return self.setcount.get(name, 0) + len(self.sets.get(name, ()))

    def sample(self, s, cap=3):
        if len(self.samples) < cap:
            self.samples.append(s)

    def merge(self, other: "Report"):
        for k, v in other.n.items():
            self.n[k] = self.n.get(k, 0) + v
        for k, s in other.sets.items():
            self.setcount[k] = self.setcount.get(k, 0) + len(s)
        for k, c in other.setcount.items():
            self.setcount[k] = self.setcount.get(k, 0) + c
        for v in other.viol:
            for w in self.viol:
                if w["sig"] == v["sig"]:
                    w["count"] += v["count"]
                    break
            else:
                if len(self.viol) < 4 * self.MAXV:
                    self.viol.append(v)
        for s in other.samples:
            if len(self.samples) < 6:
                self.samples.append(s)
        for k, v in other.notes.items():
            if isinstance(v, (int, float)) and isinstance(self.notes.get(k), (int, float)):
                self.notes[k] = max(self.notes[k], v)
            elif isinstance(v, (set, frozenset)):
                self.notes[k] = set(self.notes.get(k, set())) | set(v)
            else:
                self.notes.setdefault(k, v)


def merge_all(reports):
    r = Report()
    for x in reports:
        if x is not None:
            r.merge(x)
    return r


# --------------------------------------------------------------------------- known findings


def load_known():
    path = os.path.join(VERIF_ROOT, "known_findings.txt")
    out = []
    if not os.path.exists(path):
        return out
    for line in open(path):
        line = line.strip()
        if not line.startswith("finding:"):
            continue  # 'fixed:' lines suppress nothing
        parts = line[len("finding:"):].strip().split(None, 2)
        d = {"text": parts[2] if len(parts) > 2 else ""}
        for p in parts[:2]:
            k, _, v = p.partition("=")
            d[k] = v
        if "property" in d and "key" in d:
            out.append(d)
    return out


def match_known(prop, sig, known):
    for k in known:
        if k["property"] == prop and k["key"] == sig:
            return k
    return None


# --------------------------------------------------------------------------- finishing a run


def finish(prop: str, tier: str, rep: Report, t0: float, *, rule: str, bounds: dict, nontrivial_key="nontrivial",
           exhaustive=True, assumptions=None, extra=None, replay_confirm=None):
    """Write evidence, print KNOWN-FINDING / VIOLATION lines, exit with the contract's status."""
    known = load_known()
    exhaustive = bool(exhaustive) and not _EARLY_STOPPED[0]
    new, matched = [], []
    for v in rep.viol:
        k = match_known(prop, v["sig"], known)
        (matched if k else new).append((v, k))

    confirmed = []
    for v, _ in new:
        if replay_confirm is not None:
            ok = replay_confirm(v["case"])
            if not ok:
                harness_error(f"violation did not reproduce on replay (nondeterminism?): {v['sig']}\n{json.dumps(jsonable(v['case']))[:2000]}")
        confirmed.append(v)

    paths = []
    for v in confirmed:
        d = os.path.join(os.environ.get("VERIF_REPLAY_DIR") or os.path.join(VERIF_ROOT, "replays"), prop)
        os.makedirs(d, exist_ok=True)
        body = json.dumps({"property": prop, "sig": v["sig"], "count": v["count"], "case": jsonable(v["case"])}, indent=1, sort_keys=True)
        h = hashlib.sha1(v["sig"].encode()).hexdigest()[:12]
        p = os.path.join(d, f"{h}.json")
        with open(p, "w") as f:
            f.write(body)
        paths.append(p)

    states = rep.distinct("states") or rep.n.get("states", 0)
    cov = {
        "states": max(1, states),
        "transitions": max(1, rep.n.get("transitions", 0)),
        "traces_validated_against_impl": rep.n.get("executions", 0),
        "evaluations": max(1, rep.n.get("executions", 0)),
        "distinct_nontrivial": rep.distinct(nontrivial_key) or rep.n.get(nontrivial_key, 0),
        "rule": rule,
        "samples": jsonable(rep.samples) or [{"note": "no sample recorded"}],
        "exhaustive": bool(exhaustive),
        "distinct_counting": "states / distinct_nontrivial are sums over work shards of the number of distinct keys inside each shard; shards "
                             "partition the space (by config, timeframe config, first letter ...), a key reached in two shards counts twice",
        "bounds": jsonable(bounds),
        "counters": {k: v for k, v in sorted(rep.n.items())},
        "distinct": {k: rep.distinct(k) for k in sorted(set(rep.sets) | set(rep.setcount))},
        "known_findings_matched": [{"key": v["sig"], "count": v["count"]} for v, _ in matched],
        "new_violation_signatures": [{"key": v["sig"], "count": v["count"]} for v in confirmed],
    }
    for k, v in rep.notes.items():
        cov.setdefault("notes", {})[k] = jsonable(sorted(v) if isinstance(v, (set, frozenset)) else v)
    if extra:
        cov.update(jsonable(extra))
    ev = {
        "property_id": prop,
        "tier": tier,
        "seed": seed(),
        "level": "model_checking",
        "coverage": cov,
        "assumptions": assumptions or [],
        "wall_s": round(time.time() - t0, 3),
        "violations": len(confirmed),
    }
    evdir = os.environ.get("VERIF_EVIDENCE_DIR") or os.path.join(VERIF_ROOT, "evidence")
    os.makedirs(evdir, exist_ok=True)
    evp = os.path.join(evdir, f"{prop}.json")
    with open(evp, "w") as f:
        json.dump(ev, f, indent=1, sort_keys=True)
    validate_evidence(evp)

    print(f"[{prop}] tier={tier} seed={seed()} executions={rep.n.get('executions', 0)} states={cov['states']} "
          f"transitions={cov['transitions']} nontrivial={cov['distinct_nontrivial']} wall={ev['wall_s']}s exhaustive={exhaustive}")
    for v, k in matched:
        print(f"KNOWN-FINDING: property={prop} {k['text']} [key={v['sig']} count={v['count']}]")
    for v, p in zip(confirmed, paths):
        print(f"  violation: {v['sig']} (x{v['count']})")
        print(f"VIOLATION property={prop} replay={p}")
    sys.stdout.flush()
    return 1 if confirmed else 0


def validate_evidence(path):
    """Validate against the schema with the tooling interpreter if it is present (no hard dependency)."""
    schema = "/root/.vp/EVIDENCE.schema.json"
    if not os.path.exists(schema):
        schema = os.path.join(VERIF_ROOT, "hxmc", "EVIDENCE.schema.json")
    code = (
        "import json,sys,jsonschema;"
        "jsonschema.validate(json.load(open(sys.argv[1])),json.load(open(sys.argv[2])))"
    )
    for py in ("/opt/veriftools/pyvenv/bin/python", "python3-vt"):
        try:
            r = subprocess.run([py, "-c", code, path, schema], capture_output=True, text=True, timeout=60)
        except Exception:
            continue
        if r.returncode != 0:
            harness_error("evidence does not validate: " + r.stderr[-800:])
        return True
    return False
