"""Outward-rounded float interval arithmetic, used to make "within rounding error" precise:
every series the implementation may store rounded is widened by half a unit of its rounding,
and the widening is propagated through the definitions. No import of hexital."""
from __future__ import annotations

import math

INF = float("inf")


def _dn(x):
    return math.nextafter(math.nextafter(x, -INF), -INF) if x != 0 or True else x


def _up(x):
    return math.nextafter(math.nextafter(x, INF), INF)


class Iv:
    __slots__ = ("lo", "hi")

    def __init__(self, lo, hi=None):
        self.lo = float(lo)
        self.hi = float(lo if hi is None else hi)

    @staticmethod
    def of(x):
        return x if isinstance(x, Iv) else Iv(x)

    def _w(self, lo, hi):
        # exact results on exact operands stay exact when no rounding happened is not knowable: always widen 2 ulp
        return Iv(_dn(lo), _up(hi))

    def __add__(self, o):
        o = Iv.of(o)
        if self.is_zero():
            return o
        if o.is_zero():
            return self
        return self._w(self.lo + o.lo, self.hi + o.hi)

    __radd__ = __add__

    def __neg__(self):
        return Iv(-self.hi, -self.lo)

    def __sub__(self, o):
        o = Iv.of(o)
        if o.is_zero():
            return self
        return self._w(self.lo - o.hi, self.hi - o.lo)

    def __rsub__(self, o):
        return Iv.of(o) - self

    def __mul__(self, o):
        o = Iv.of(o)
        if self.is_zero() or o.is_zero():
            return Iv(0.0)
        ps = (self.lo * o.lo, self.lo * o.hi, self.hi * o.lo, self.hi * o.hi)
        return self._w(min(ps), max(ps))

    __rmul__ = __mul__

    def has_zero(self):
        return self.lo <= 0 <= self.hi

    def __truediv__(self, o):
        o = Iv.of(o)
        if o.has_zero():
            return Iv(-INF, INF)
        if self.is_zero():
            return Iv(0.0)
        ps = (self.lo / o.lo, self.lo / o.hi, self.hi / o.lo, self.hi / o.hi)
        return self._w(min(ps), max(ps))

    def __rtruediv__(self, o):
        return Iv.of(o) / self

    def abs(self):
        if self.lo >= 0:
            return Iv(self.lo, self.hi)
        if self.hi <= 0:
            return Iv(-self.hi, -self.lo)
        return Iv(0.0, max(-self.lo, self.hi))

    def sqrt(self):
        lo = math.sqrt(max(self.lo, 0.0))
        hi = math.sqrt(max(self.hi, 0.0))
        return Iv(max(0.0, _dn(lo)), _up(hi))

    def widen(self, d):
        return Iv(self.lo - d, self.hi + d)

    def bounded(self):
        return math.isfinite(self.lo) and math.isfinite(self.hi)

    @property
    def width(self):
        return self.hi - self.lo

    def contains(self, v, eps=0.0):
        return self.lo - eps <= v <= self.hi + eps

    def is_zero(self):
        return self.lo == 0.0 and self.hi == 0.0

    def __repr__(self):
        return f"[{self.lo!r},{self.hi!r}]"


def imax(*xs):
    xs = [Iv.of(x) for x in xs]
    return Iv(max(x.lo for x in xs), max(x.hi for x in xs))


def imin(*xs):
    xs = [Iv.of(x) for x in xs]
    return Iv(min(x.lo for x in xs), min(x.hi for x in xs))


def isum(xs):
    t = Iv(0.0)
    for x in xs:
        t = t + x
    return t


def st(x, rv, n=1):
    """x as stored by the implementation: rounded to rv decimals (n = number of accumulated roundings)."""
    x = Iv.of(x)
    if not x.bounded():
        return x
    d = n * 0.5 * 10.0 ** (-rv) * (1 + 1e-9) + 1e-12
    return x.widen(d)


def cmp_gt(a, b):
    """a > b for intervals: True / False / None (undecidable at this precision)."""
    a, b = Iv.of(a), Iv.of(b)
    if a.lo > b.hi:
        return True
    if a.hi <= b.lo:
        return False
    return None
