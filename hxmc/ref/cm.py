"""Reference models of the candle manager, written from the property statements only.
No import of hexital. Candles are (o,h,l,c,v,iso) tuples; results are lists of the same."""
from datetime import datetime, timedelta

EPOCH = datetime(1970, 1, 1)


def _secs(iso):
    t = datetime.fromisoformat(iso).replace(microsecond=0)
    d = t - EPOCH
    return d.days * 86400 + d.seconds


def _iso(secs):
    return (EPOCH + timedelta(seconds=secs)).isoformat()


def collapse(raw, tf):
    """Right-closed, right-labelled buckets (k*tf, (k+1)*tf] on the naive wall-clock axis."""
    out = []
    cur = None
    for o, h, l, c, v, iso in raw:
        s = _secs(iso)
        b = -((-s) // tf)  # ceil
        if cur is not None and cur[0] == b:
            cur[2] = max(cur[2], h)
            cur[3] = min(cur[3], l)
            cur[4] = c
            cur[5] += v
        else:
            if cur is not None and b < cur[0]:
                raise ValueError("decreasing timestamps")
            cur = [b, o, h, l, c, v]
            out.append(cur)
    return [(o, h, l, c, v, _iso(b * tf)) for b, o, h, l, c, v in out]


def fill(cands, tf):
    """Insert flat zero-volume candles so that consecutive timestamps are exactly tf apart."""
    out = []
    for cd in cands:
        if out:
            prev = out[-1]
            s, e = _secs(prev[5]), _secs(cd[5])
            while s + tf < e:
                s += tf
                pc = out[-1][3]
                out.append((pc, pc, pc, pc, 0, _iso(s)))
        out.append(cd)
    return out


def trim(cands, life):
    if not cands:
        return cands
    newest = _secs(cands[-1][5])
    return [c for c in cands if _secs(c[5]) >= newest - life]


def heikin_ashi(cands):
    out = []
    for i, (o, h, l, c, v, iso) in enumerate(cands):
        hc = (o + h + l + c) / 4
        ho = (o + c) / 2 if i == 0 else (out[-1][0] + out[-1][3]) / 2
        out.append((ho, max(h, ho, hc), min(l, ho, hc), hc, v, iso))
    return out
