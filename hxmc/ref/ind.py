"""Reference definitions of every shipped indicator, written from the property statements (DESIGN.md
Appendix A) as full-window recomputations over intervals. No import of hexital.

A series is a list whose entries are: None (no reading expected), UNDEF (the definition leaves the value
open: zero denominators, undecidable comparisons - the element is skipped by the comparison), an Iv, or an
exact Python value (bool / int) for discrete outputs. Candles are (o,h,l,c,v) tuples."""
from __future__ import annotations

import math

from .iv import Iv, cmp_gt, imax, imin, isum, st

UNDEF = "UNDEF"
HRV = 4  # helper (sub / managed Indicator) series are always stored at 4 decimals


def isdef(v):
    return v is not None and v is not UNDEF


def col(cands, name):
    i = "ohlcv".index(name[0]) if name in ("open", "high", "low", "close", "volume") else None
    return [Iv(c[i]) for c in cands]


def window(x, t, p):
    """x[t-p+1..t] if fully inside the list and nothing is None; UNDEF if anything in it is UNDEF."""
    if t - p + 1 < 0:
        return None
    w = x[t - p + 1:t + 1]
    if any(v is None for v in w):
        return None
    if any(v is UNDEF for v in w):
        return UNDEF
    return w


def sma(x, p, rv):
    out, started = [], None
    for t in range(len(x)):
        w = window(x, t, p)
        if w is not None and started is None:
            started = t  # the implementation's running update starts here, whatever convention fills UNDEF
        if w is None or w is UNDEF:
            out.append(w)
            continue
        out.append(st(isum(w) / p, rv, n=t - started + 1))  # incremental updates may accumulate one rounding per step
    return out


def _recursive(x, p, rv, alpha, seed):
    out, prev = [], None
    for t in range(len(x)):
        if prev is UNDEF or x[t] is UNDEF:
            prev = UNDEF if (prev is not None or window(x, t, p) is not None) else None
            out.append(prev)
            continue
        if prev is None:
            w = window(x, t, p)
            if w is None:
                out.append(None)
                continue
            if w is UNDEF:
                prev = UNDEF
                out.append(UNDEF)
                continue
            prev = st(seed(w), rv)
        else:
            if x[t] is None:
                out.append(UNDEF)
                prev = UNDEF
                continue
            prev = st(alpha * x[t] + (1 - alpha) * prev, rv)
        out.append(prev)
    return out


def ema(x, p, rv, smoothing=2.0):
    return _recursive(x, p, rv, smoothing / (p + 1.0), lambda w: isum(w) / p)


def rma(x, p, rv):
    a = 1.0 / p
    ws = [(1 - a) ** j for j in range(p)]

    def seed(w):  # decay-weighted mean, newest first
        return isum(ws[j] * w[len(w) - 1 - j] for j in range(p)) / sum(ws)

    return _recursive(x, p, rv, a, seed)


def wma(x, p, rv):
    out = []
    for t in range(len(x)):
        w = window(x, t, p)
        if w is None or w is UNDEF:
            out.append(w)
            continue
        out.append(st(isum((p - j) * w[len(w) - 1 - j] for j in range(p)) / (p * (p + 1) / 2), rv))
    return out


def vwma(cands, p, rv):
    c, v = col(cands, "close"), col(cands, "volume")
    out = []
    for t in range(len(cands)):
        if t - p + 1 < 0:
            out.append(None)
            continue
        vs = isum(v[t - p + 1:t + 1])
        if vs.is_zero():
            out.append(UNDEF)
            continue
        out.append(st(isum(c[i] * v[i] for i in range(t - p + 1, t + 1)) / vs, rv))
    return out


def hma(x, p, rv):
    full = wma(x, p, HRV)
    half = wma(x, p // 2, HRV)
    raw = [(2 * half[t] - full[t]) if isdef(full[t]) and isdef(half[t]) else (None if full[t] is None else UNDEF)
           for t in range(len(x))]
    s = wma(raw, int(math.sqrt(p)), HRV)
    return [st(v, rv) if isdef(v) else v for v in s]


def tr(cands, rv):
    out = [None]
    for t in range(1, len(cands)):
        h, l, pc = Iv(cands[t][1]), Iv(cands[t][2]), Iv(cands[t - 1][3])
        out.append(st(imax(h - l, (h - pc).abs(), (l - pc).abs()), rv))
    return out


def atr(cands, p, rv):
    trs = tr(cands, HRV)
    out, prev = [], None
    for t in range(len(cands)):
        if prev is None:
            w = window(trs, t, p)
            if w is None:
                out.append(None)
                continue
            prev = st(isum(w) / p, rv)
        else:
            prev = st((prev * (p - 1) + trs[t]) / p, rv)
        out.append(prev)
    return out


def stdev(x, p, rv):
    """sigma over the last p inputs wherever a full window exists (the warm-up convention - first reading at
    the first full window or one candle later - is handled by the comparer)."""
    out = []
    eps = 2.3e-16
    for t in range(len(x)):
        w = window(x, t, p)
        if w is None or w is UNDEF:
            out.append(w)
            continue
        m = isum(w) / p
        var = isum((v - m) * (v - m) for v in w) / p
        mag = max(1.0, max(abs(v.lo) for v in w), max(abs(v.hi) for v in w))
        var = var.widen((t + 2) * 16 * eps * mag * mag)  # cancellation error of a rolling update
        out.append(st(var.sqrt(), rv))
    return out


def bbands(x, p, rv):
    m = sma(x, p, HRV)
    s = stdev(x, p, HRV)
    out = {"BBL": [], "BBM": [], "BBU": []}
    for t in range(len(x)):
        if isdef(m[t]) and isdef(s[t]):
            out["BBM"].append(st(m[t], rv))
            out["BBL"].append(st(m[t] - s[t] * 2.0, rv))
            out["BBU"].append(st(m[t] + s[t] * 2.0, rv))
        else:
            v = None if (m[t] is None or s[t] is None) else UNDEF
            for k in out:
                out[k].append(v)
    return out


def kc(cands, x, p, mult, rv):
    e = ema(x, p, HRV)
    a = atr(cands, p, HRV)
    out = {"lower": [], "band": [], "upper": []}
    for t in range(len(x)):
        if isdef(e[t]) and isdef(a[t]):
            out["band"].append(st(e[t], rv))
            out["lower"].append(st(e[t] - mult * a[t], rv))
            out["upper"].append(st(e[t] + mult * a[t], rv))
        else:
            out["lower"].append(None)
            out["upper"].append(None)
            out["band"].append(("EITHER", None, st(e[t], rv)) if isdef(e[t]) else None)
    return out


def donchian(cands, p, rv):
    out = {"DCL": [], "DCM": [], "DCU": []}
    for t in range(len(cands)):
        if t - p + 1 < 0:
            for k in out:
                out[k].append(None)
            continue
        hi = max(c[1] for c in cands[t - p + 1:t + 1])
        lo = min(c[2] for c in cands[t - p + 1:t + 1])
        out["DCU"].append(st(Iv(hi), rv))
        out["DCL"].append(st(Iv(lo), rv))
        out["DCM"].append(st((Iv(hi) + Iv(lo)) / 2, rv))
    return out


def highest_lowest(cands, p, rv):
    out = {"low": [], "high": []}
    for t in range(len(cands)):
        w = cands[max(0, t - p):t + 1]
        out["high"].append(st(Iv(max(c[1] for c in w)), rv))
        out["low"].append(st(Iv(min(c[2] for c in w)), rv))
    return out


def hla(cands, rv):
    return [st((Iv(c[1]) + Iv(c[2])) / 2, rv) for c in cands]


def supertrend(cands, p, mult, rv):
    a = atr(cands, p, HRV)
    hl2 = hla(cands, HRV)
    out = {"trend": [], "direction": [], "long": [], "short": []}
    U = D = None
    d = 1
    dead = False
    for t in range(len(cands)):
        if not isdef(a[t]):
            out["trend"].append(None); out["direction"].append(1); out["long"].append(None); out["short"].append(None)
            continue
        if dead:
            for k in out:
                out[k].append(UNDEF)
            continue
        u = hl2[t] + mult * a[t]
        dn = hl2[t] - mult * a[t]
        if U is not None:
            c = Iv(cands[t][3])
            up = cmp_gt(c, U)
            if up is True:
                d = 1
            elif up is None:
                dead = True
            else:
                down = cmp_gt(D, c)
                if down is True:
                    d = -1
                elif down is None:
                    dead = True
                else:
                    if d == 1:
                        dn = imax(dn, D)
                    else:
                        u = imin(u, U)
            if dead:
                for k in out:
                    out[k].append(UNDEF)
                continue
        U, D = u, dn
        trend = st(dn if d == 1 else u, rv)
        out["trend"].append(trend)
        out["direction"].append(d)
        out["long"].append(trend if d == 1 else None)
        out["short"].append(trend if d == -1 else None)
    return out


def stdevthres(x, p, mult, rv):
    s = stdev(x, p, HRV)
    out = []
    first = next((t for t in range(len(x)) if s[t] is not None), None)
    for t in range(len(x)):
        if not isdef(s[t]) or t == 0 or not isdef(x[t]) or not isdef(x[t - 1]):
            out.append(False if s[t] is None or t == 0 else UNDEF)
            continue
        r = cmp_gt((x[t] - x[t - 1]).abs(), s[t] * mult)
        if r is None:
            out.append(UNDEF)
        elif t == first and r is True:
            out.append(("EITHER", False, True))  # sigma's warm-up convention (first full window or one later)
        else:
            out.append(r)
    return out


def counter(x_exact, value):
    """x_exact: list of exact python values or None."""
    out, cnt = [], 0
    for v in x_exact:
        if v is None:
            out.append(cnt)
            continue
        cnt = cnt + 1 if v == value else 0
        out.append(cnt)
    return out


def rsi(x, p, rv):
    out = []
    G = L = None
    start = next((t for t in range(len(x)) if x[t] is not None), None)
    for t in range(len(x)):
        if start is None or t < start + p:
            out.append(None)
            continue
        if any(v is UNDEF for v in x[start:t + 1]):
            out.append(UNDEF)
            continue
        if G is None:
            ch = [x[i] - x[i - 1] for i in range(t - p + 1, t + 1)]
            G = isum(imax(c, 0.0) for c in ch) / p
            L = isum(imax(-c, 0.0) for c in ch) / p
        else:
            c = x[t] - x[t - 1]
            G = (G * (p - 1) + imax(c, 0.0)) / p
            L = (L * (p - 1) + imax(-c, 0.0)) / p
        if L.is_zero():
            out.append(st(Iv(100.0), rv))
        elif L.has_zero():
            out.append(UNDEF)
        else:
            out.append(st(100.0 - 100.0 / (1.0 + G / L), rv))
    return out


def macd(x, pf, ps, psig, rv):
    if ps < pf:
        pf, ps = ps, pf
    f = ema(x, pf, HRV)
    s = ema(x, ps, HRV)
    raw = [(f[t] - s[t]) if isdef(f[t]) and isdef(s[t]) else (None if s[t] is None else UNDEF) for t in range(len(x))]
    stored = [st(v, rv) if isdef(v) else v for v in raw]
    sig = ema(stored, psig, HRV)
    out = {"MACD": stored, "signal": [st(v, rv) if isdef(v) else v for v in sig], "histogram": []}
    for t in range(len(x)):
        if isdef(raw[t]) and isdef(sig[t]):
            out["histogram"].append(st(raw[t] - sig[t], rv))
        else:
            out["histogram"].append(None if (raw[t] is None or sig[t] is None) else UNDEF)
    return out


def roc(x, p, rv):
    out = []
    for t in range(len(x)):
        if t - p < 0 or x[t - p] is None or x[t] is None:
            out.append(None)
        elif x[t] is UNDEF or x[t - p] is UNDEF or x[t - p].has_zero():
            out.append(UNDEF)
        else:
            out.append(st((x[t] - x[t - p]) / x[t - p] * 100, rv))
    return out


def stoch(cands, p, sk, sd, rv):
    raw = []
    for t in range(len(cands)):
        if t - p + 1 < 0:
            raw.append(None)
            continue
        w = cands[t - p + 1:t + 1]
        hh, ll = max(c[1] for c in w), min(c[2] for c in w)
        if hh == ll:
            raw.append(UNDEF)
        else:
            raw.append((Iv(cands[t][3]) - ll) / (Iv(hh) - ll) * 100)
    k = sma(raw, sk, HRV)
    d = sma(k, sd, HRV)
    f = lambda s: [st(v, rv) if isdef(v) else v for v in s]
    return {"stoch": f(raw), "k": f(k), "d": f(d)}


def tsi(x, p, sp, rv):
    dl = [None] + [(x[t] - x[t - 1]) if isdef(x[t]) and isdef(x[t - 1]) else (None if x[t - 1] is None or x[t] is None else UNDEF)
                   for t in range(1, len(x))]
    ab = [v.abs() if isdef(v) else v for v in dl]
    e2 = ema(ema(dl, p, HRV), sp, HRV)
    a2 = ema(ema(ab, p, HRV), sp, HRV)
    out = []
    for t in range(len(x)):
        if a2[t] is None:
            out.append(None)
        elif not isdef(a2[t]) or not isdef(e2[t]) or a2[t].has_zero():
            out.append(UNDEF)
        else:
            out.append(st(e2[t] / a2[t] * 100, rv))
    return out


def aroon(cands, p, rv):
    out = {"AROONU": [], "AROOND": [], "AROONOSC": []}
    for t in range(len(cands)):
        if t - p < 0:
            for k in out:
                out[k].append(None)
            continue
        w = cands[t - p:t + 1]
        hs = [c[1] for c in w]
        ls = [c[2] for c in w]
        bh = min(j for j in range(p + 1) if hs[p - j] == max(hs))  # bars since the most recent maximum
        bl = min(j for j in range(p + 1) if ls[p - j] == min(ls))
        up = Iv(p - bh) / p * 100
        dn = Iv(p - bl) / p * 100
        out["AROONU"].append(st(up, rv))
        out["AROOND"].append(st(dn, rv))
        out["AROONOSC"].append(st(up - dn, rv))
    return out


def adx(cands, p, ps, rv):
    n = len(cands)
    pos, neg = [None], [None]
    for t in range(1, n):
        up = cands[t][1] - cands[t - 1][1]
        dn = cands[t - 1][2] - cands[t][2]
        pos.append(Iv(up) if (up > dn and up > 0) else Iv(0.0))
        neg.append(Iv(dn) if (dn > up and dn > 0) else Iv(0.0))
    rp, rn = rma(pos, p, HRV), rma(neg, p, HRV)
    a = atr(cands, p, HRV)
    dip, din, dx = [], [], []
    for t in range(n):
        if not (isdef(a[t]) and isdef(rp[t]) and isdef(rn[t])):
            dip.append(None); din.append(None); dx.append(None)
            continue
        if a[t].has_zero():
            dip.append(UNDEF); din.append(UNDEF); dx.append(UNDEF)
            continue
        mod = 100.0 / a[t]
        P, N = mod * rp[t], mod * rn[t]
        dip.append(P); din.append(N)
        s = P + N
        dx.append(UNDEF if s.has_zero() else (P - N).abs() / s * 100)
    ad = rma(dx, ps, HRV)
    f = lambda s: [st(v, rv) if isdef(v) else v for v in s]
    return {"ADX": f(ad), "DM_Plus": f(dip), "DM_Neg": f(din)}


def obv(cands, rv):
    out, acc = [], None
    for t, c in enumerate(cands):
        if t == 0:
            acc = c[4]
        elif c[3] > cands[t - 1][3]:
            acc += c[4]
        elif c[3] < cands[t - 1][3]:
            acc -= c[4]
        out.append(st(Iv(acc), rv))
    return out


def vwap(cands, rv):
    out = []
    pv, vol = Iv(0.0), Iv(0.0)
    for c in cands:
        tp = (Iv(c[1]) + Iv(c[2]) + Iv(c[3])) / 3
        pv = pv + tp * c[4]
        vol = vol + c[4]
        out.append(UNDEF if vol.is_zero() else st(pv / vol, rv))
    return out
